#!/usr/bin/env python3
"""dev helper: codegen + goto preparation for one harness, leaves <name>.out for manual cbmc runs"""
import sys, os, subprocess
sys.path.insert(0, os.path.dirname(os.path.abspath(__file__)))
import runner
name = sys.argv[1]
rundir = '/var/tmp/biscuit-verif/dbg'
os.makedirs(rundir, exist_ok=True)
hs, t, _ = runner.codegen('biscuit-auth', [name], rundir, rundir + '/codegen.log')
h = [h for h in hs if h['pretty_name'].endswith('::' + name)][0]
out = os.path.join(rundir, name + '.out')
steps = [
    ['goto-cc', h['symtab'], runner.KANI_LIB_C, '-o', out],
    ['goto-cc', out, '--function', h['mangled_name'], '-o', out],
    ['goto-instrument', '--add-library', '--no-malloc-may-fail', out, out],
    ['goto-instrument', '--generate-function-body-options', 'assert-false-assume-false',
     '--generate-function-body', '.*', '--drop-unused-functions', out, out],
    ['goto-instrument', '--ensure-one-backedge-per-target', out, out],
]
for s in steps:
    subprocess.run(s, env=runner.env_offline(), stdout=subprocess.DEVNULL, stderr=subprocess.DEVNULL, check=True)
print(out, h['mangled_name'])
print('cbmc ' + ' '.join(runner.CBMC_FLAGS) + ' --unwind %s --max-field-sensitivity-array-size 1024 %s' % (h['attributes'].get('unwind_value'), out))
