#!/usr/bin/env python3
"""Generates kani/harness/c06_expr.rs: the closure-free op sequences of Expression::evaluate.
Alphabet: 0 = Value(int), 1 = Value(bool), 2 = Unary(Negate), 3 = Binary(Sub), 4 = Value(bound variable), 5 = Value(unbound variable),
6 = Binary(LessThan), 7 = Unary(Parens). Every sequence is a concrete shape; payloads are symbolic."""
import itertools, os
HERE = os.path.dirname(os.path.abspath(__file__))
HEAD = open(os.path.join(HERE, 'c06_expr_head.rs')).read()

def harness(name, seqs, unwind=5):
    arms = []
    for i, s in enumerate(seqs):
        arms.append('        %d => cell(&[%s]),' % (i, ', '.join(str(x) for x in s)))
    return '''
#[kani::proof]
#[kani::stub(regex::Regex::new, crate::kh_support::regex_new_stub)]
#[kani::stub(regex::Regex::is_match, crate::kh_support::regex_is_match_stub)]
#[kani::unwind(%d)]
fn %s() {
    let sel: u8 = kani::any();
    kani::assume(sel < %d);
    match sel {
%s
        _ => {}
    }
}
''' % (unwind, name, len(seqs), '\n'.join(arms))

out = [HEAD]
base = [0, 1, 2, 3]
def chunks(l, n):
    return [l[i:i + n] for i in range(0, len(l), n)]
# every sequence of length 0..2 over the base alphabet (21 shapes)
short = [()] + [(a,) for a in base] + list(itertools.product(base, base))
for i, c in enumerate(chunks(short, 7)):
    out.append(harness('c06e_seq_len0to2_%s' % 'abc'[i], c))
# every sequence of length 3 over {int, bool, Sub} (27 shapes: operand order of the non-commutative operator, popping,
# malformed sequences, type errors), 3 per harness; plus LessThan
core = [0, 1, 3]
for a in core:
    for b in core:
        out.append(harness('c06e_seq_len3_%d%d' % (a, b), [(a, b, c) for c in core]))
out.append(harness('c06e_seq_len3_lt', [(0, 0, 6), (0, 1, 6), (1, 0, 6)]))
# NOT generated (no verdict within 300 s / 10 GB, see DESIGN.md): a unary operator in third position, variables (lookup in the
# bindings map), sequences of length 4 and 5, closures
import sys
if '--singles' in sys.argv:
    for c in [(0,0,0),(0,0,1),(0,0,2),(0,0,3),(0,1,2),(0,1,3),(0,0,6),(4,),(5,),(4,0,3),(0,4,3),(0,0,0,3,3),(0,0,3,0,3)]:
        out.append(harness('c06e_single_' + ''.join(map(str, c)), [c], unwind=7 if len(c) > 3 else 5))
open(os.path.join(HERE, 'harness', 'c06_expr.rs'), 'w').write(''.join(out))
