//@ owner: biscuit-auth/src/format/mod.rs
//! C01-K1 (also C07-K1, C08-K2, C15-K3): what `SerializedBiscuit::verify_inner` demands of the
//! signature primitive. The container is built directly (every byte, key object and oracle
//! answer symbolic; versions, lengths, presence of an external signature, proof kind concrete
//! per harness). If verification returns Ok, the oracle log must be exactly the list of
//! obligations of the specification, each answered Ok:
//!   (root, P(authority)), (next_key[i-1], P(block i, signature[i-1])), (external key, X(block i, signature[i-1])),
//!   and for a sealed token (next_key[last], S(last block)); for an unsealed one the secret's public key is next_key[last].
//! P, X, S are rebuilt here from the layouts fixed by the Biscuit specification.
use super::*;
use crate::crypto::kh_keys::any_public;
use crate::crypto::kh_oracle as oracle;
use crate::crypto::{Block as SBlock, ExternalSignature as Ext};

pub(crate) const DATA_LEN: usize = 2;
pub(crate) const SIG_LEN: usize = 3;

pub(crate) fn any_bytes<const N: usize>() -> Vec<u8> {
    let a: [u8; N] = kani::any();
    a.to_vec()
}

pub(crate) fn any_block(version: u32, ext: bool, p256_next: bool) -> SBlock {
    SBlock {
        data: any_bytes::<DATA_LEN>(),
        next_key: any_public(p256_next),
        signature: crypto::Signature::from_vec(any_bytes::<SIG_LEN>()),
        external_signature: if ext {
            Some(Ext { public_key: any_public(false), signature: crypto::Signature::from_vec(any_bytes::<SIG_LEN>()) })
        } else {
            None
        },
        version,
    }
}

fn push(out: &mut Vec<u8>, b: &[u8]) {
    out.extend_from_slice(b);
}
fn alg_of(k: &PublicKey) -> i32 {
    match k {
        PublicKey::Ed25519(_) => 0,
        PublicKey::P256(_) => 1,
    }
}

/// specification layouts
pub(crate) fn spec_block_payload(b: &SBlock, previous_signature: Option<&[u8]>) -> Vec<u8> {
    let mut out = Vec::with_capacity(160);
    if b.version == 0 {
        push(&mut out, &b.data);
        if let Some(e) = &b.external_signature {
            push(&mut out, e.signature.to_bytes());
        }
        push(&mut out, &alg_of(&b.next_key).to_le_bytes());
        push(&mut out, &b.next_key.to_bytes());
    } else {
        push(&mut out, b"\0BLOCK\0\0VERSION\0");
        push(&mut out, &b.version.to_le_bytes());
        push(&mut out, b"\0PAYLOAD\0");
        push(&mut out, &b.data);
        push(&mut out, b"\0ALGORITHM\0");
        push(&mut out, &alg_of(&b.next_key).to_le_bytes());
        push(&mut out, b"\0NEXTKEY\0");
        push(&mut out, &b.next_key.to_bytes());
        if let Some(p) = previous_signature {
            push(&mut out, b"\0PREVSIG\0");
            push(&mut out, p);
            if let Some(e) = &b.external_signature {
                push(&mut out, b"\0EXTERNALSIG\0");
                push(&mut out, e.signature.to_bytes());
            }
        }
    }
    out
}
pub(crate) fn spec_external_payload(b: &SBlock, previous_signature: &[u8]) -> Vec<u8> {
    let mut out = Vec::with_capacity(64);
    push(&mut out, b"\0EXTERNAL\0\0VERSION\0");
    push(&mut out, &b.version.to_le_bytes());
    push(&mut out, b"\0PAYLOAD\0");
    push(&mut out, &b.data);
    push(&mut out, b"\0PREVSIG\0");
    push(&mut out, previous_signature);
    out
}
pub(crate) fn spec_seal_payload(b: &SBlock) -> Vec<u8> {
    let mut out = Vec::with_capacity(64);
    push(&mut out, &b.data);
    push(&mut out, &alg_of(&b.next_key).to_le_bytes());
    push(&mut out, &b.next_key.to_bytes());
    push(&mut out, b.signature.to_bytes());
    out
}

pub(crate) fn same(a: &[u8], b: &[u8]) -> bool {
    a == b
}

/// obligation k of the log: asked of `key`, over `msg`, with `sig`, and answered Ok
fn obligation(k: usize, key: &PublicKey, msg: &[u8], sig: &[u8]) -> bool {
    if k >= oracle::n_verify() {
        return false;
    }
    let q = oracle::verify_query(k);
    q.accepted && q.key == *key && same(&q.msg, msg) && same(&q.sig, sig)
}

/// shape: versions of authority / block 1 / block 2 (None = absent), external signatures, seal
fn walk(v0: u32, b1: Option<(u32, bool)>, b2: Option<(u32, bool)>, sealed: bool, p256_keys: bool) {
    let root = any_public(p256_keys);
    let authority = any_block(v0, false, p256_keys);
    // exact-capacity vectors: one whole-object write each (see vstd_model.rs)
    let blocks = match (b1, b2) {
        (Some((v1, e1)), Some((v2, e2))) => vec![any_block(v1, e1, false), any_block(v2, e2, p256_keys)],
        (Some((v1, e1)), None) => vec![any_block(v1, e1, false)],
        _ => Vec::new(),
    };
    let n = blocks.len();
    let secret = crate::crypto::kh_keys::any_private(false);
    let seal_sig = any_bytes::<SIG_LEN>();
    let proof = if sealed {
        std::mem::forget(secret); // its Drop zeroizes through inline assembly
        TokenNext::Seal(crypto::Signature::from_vec(seal_sig.clone()))
    } else {
        TokenNext::Secret(secret)
    };
    let token = SerializedBiscuit { root_key_id: kani::any(), authority, blocks, proof };

    oracle::switch_on();
    let res = token.verify_inner(&root, ThirdPartyVerificationMode::PreviousSignatureHashing);
    let accepted = res.is_ok();
    std::mem::forget(res);

    kani::cover!(accepted, "witness-any: some token of this shape verifies");
    kani::cover!(!accepted, "witness-any: some token of this shape is refused");
    let bad_version = v0 > 1 || matches!(b1, Some((v, _)) if v > 1) || matches!(b2, Some((v, _)) if v > 1);
    if accepted {
        assert!(!bad_version, "a block with an unknown signature version verifies");
        // obligations, in order
        let mut k = 0;
        let p_auth = spec_block_payload(&token.authority, None);
        assert!(obligation(k, &root, &p_auth, token.authority.signature.to_bytes()), "authority block: not verified under the root key over the specified payload");
        k += 1;
        let mut prev_key = token.authority.next_key;
        let mut prev_sig: &[u8] = token.authority.signature.to_bytes();
        let mut i = 0;
        while i < n {
            let b = &token.blocks[i];
            let p = spec_block_payload(b, Some(prev_sig));
            assert!(obligation(k, &prev_key, &p, b.signature.to_bytes()), "block: not verified under the previous block's next key over the specified payload (with the previous signature)");
            k += 1;
            if let Some(e) = &b.external_signature {
                let x = spec_external_payload(b, prev_sig);
                assert!(obligation(k, &e.public_key, &x, e.signature.to_bytes()), "third-party block: external signature not verified under the stated key over payload + previous signature");
                k += 1;
            }
            prev_key = b.next_key;
            prev_sig = b.signature.to_bytes();
            i += 1;
        }
        let last = if n == 0 { &token.authority } else { &token.blocks[n - 1] };
        match &token.proof {
            TokenNext::Seal(s) => {
                let sp = spec_seal_payload(last);
                assert!(obligation(k, &last.next_key, &sp, s.to_bytes()), "sealed token: final signature not verified under the last next key over the last block");
                k += 1;
            }
            TokenNext::Secret(private) => {
                assert!(last.next_key == private.public(), "unsealed token: the proof secret does not match the last next key");
            }
        }
        assert!(k == oracle::n_verify(), "verification asked for more signatures than the specification lists");
    } else {
        // a refusal must be justified: an unknown version, a refused obligation, or a proof mismatch
        let mut some_refused = false;
        let mut j = 0;
        while j < oracle::n_verify() {
            if !oracle::verify_query(j).accepted {
                some_refused = true;
            }
            j += 1;
        }
        let last = if n == 0 { &token.authority } else { &token.blocks[n - 1] };
        let proof_mismatch = match &token.proof {
            TokenNext::Secret(private) => last.next_key != private.public(),
            TokenNext::Seal(_) => false,
        };
        assert!(bad_version || some_refused || proof_mismatch, "a token whose every obligation holds is refused");
    }
    std::mem::forget(token);
}

macro_rules! shape {
    ($name:ident, $v0:expr, $b1:expr, $b2:expr, $sealed:expr, $p256:expr) => {
        #[kani::proof]
        #[kani::stub(alloc::fmt::format, crate::kh_support::fmt_format_stub)]
        #[kani::stub(zeroize::optimization_barrier, crate::kh_support::barrier_stub)]
        #[kani::unwind(34)]
        fn $name() {
            walk($v0, $b1, $b2, $sealed, $p256);
        }
    };
}
shape!(c01_walk_auth_v0, 0, None, None, false, false);
shape!(c01_walk_auth_v1, 1, None, None, false, false);
shape!(c01_walk_auth_v2_refused, 2, None, None, false, false);
shape!(c01_walk_auth_v1_sealed, 1, None, None, true, false);
shape!(c01_walk_v0_v0, 0, Some((0, false)), None, false, false);
shape!(c01_walk_v1_v1, 1, Some((1, false)), None, false, false);
shape!(c01_walk_v0_v1ext, 0, Some((1, true)), None, false, false);
shape!(c01_walk_v1_v1_sealed, 1, Some((1, false)), None, true, false);
shape!(c01_walk_v1_v2_refused, 1, Some((2, false)), None, false, false);
shape!(c01_walk_v0_v1ext_v1, 0, Some((1, true)), Some((1, false)), false, false);
shape!(c01_walk_v1_v1_v1_sealed_p256, 1, Some((1, false)), Some((1, false)), true, true);
shape!(c01_walk_v0_v0ext_legacy, 0, Some((0, true)), None, false, false);
shape!(c01_walk_v0_v0_v0, 0, Some((0, false)), Some((0, false)), false, false);
shape!(c01_walk_v0_v0_v0_sealed, 0, Some((0, false)), Some((0, false)), true, false);
shape!(c01_walk_v1_v1ext_v1ext, 1, Some((1, true)), Some((1, true)), false, false);
shape!(c01_walk_v1_v1ext_sealed_p256, 1, Some((1, true)), None, true, true);
shape!(c01_walk_v0_v1_v0_mixed, 0, Some((1, false)), Some((0, false)), false, false);
shape!(c01_walk_v0_v1ext_sealed, 0, Some((1, true)), None, true, false);
shape!(c01_walk_auth_v0_p256, 0, None, None, false, true);
