//@ owner: biscuit-auth/src/format/convert.rs
//! C09-K2 (and the wire mapping behind C02/C16): the protobuf -> Datalog converters on
//! adversarial field values. For ANY operator kind (i32), any presence of the extern name, any
//! scope tag, the converters return a value or an error - they never panic - and they accept
//! exactly the combinations of the schema; what they accept re-encodes to the same fields.
use super::v2::*;
use super::*;
use crate::datalog::Term;

#[kani::proof]
#[kani::stub(alloc::fmt::format, crate::kh_support::fmt_format_stub)]
#[kani::unwind(4)]
fn c09_convert_scope_any_value() {
    let s = if kani::any() {
        schema::Scope { content: Some(schema::scope::Content::ScopeType(kani::any())) }
    } else if kani::any() {
        schema::Scope { content: Some(schema::scope::Content::PublicKey(kani::any())) }
    } else {
        schema::Scope { content: None }
    };
    let r = proto_scope_to_token_scope(&s);
    let expect_ok = match &s.content {
        Some(schema::scope::Content::ScopeType(i)) => *i == 0 || *i == 1,
        Some(schema::scope::Content::PublicKey(_)) => true,
        None => false,
    };
    kani::cover!(r.is_ok(), "witness: a scope was decoded");
    kani::cover!(r.is_err(), "witness: a malformed scope was refused");
    assert!(r.is_ok() == expect_ok, "scope tag wrongly accepted or refused");
    if let Ok(sc) = &r {
        let back = token_scope_to_proto_scope(sc);
        let same = match (&back.content, &s.content) {
            (Some(schema::scope::Content::ScopeType(a)), Some(schema::scope::Content::ScopeType(b))) => a == b,
            (Some(schema::scope::Content::PublicKey(a)), Some(schema::scope::Content::PublicKey(b))) => a == b,
            _ => false,
        };
        assert!(same, "decoded scope does not re-encode to the same field");
    }
    std::mem::forget(r);
}

/// scalar terms survive Datalog -> protobuf -> Datalog; an empty term is refused
fn term_roundtrip(t: Term) {
    let p = token_term_to_proto_id(&t);
    let back = proto_id_to_token_term(&p);
    let ok = matches!(&back, Ok(b) if *b == t);
    kani::cover!(ok, "witness: term restored");
    assert!(ok, "a term does not survive the wire mapping");
    std::mem::forget(back);
    std::mem::forget(p);
    std::mem::forget(t);
}
#[kani::proof]
#[kani::stub(alloc::fmt::format, crate::kh_support::fmt_format_stub)]
#[kani::unwind(4)]
fn c09_convert_scalar_terms_roundtrip() {
    let sel: u8 = kani::any();
    match sel {
        0 => term_roundtrip(Term::Variable(kani::any())),
        1 => term_roundtrip(Term::Integer(kani::any())),
        2 => term_roundtrip(Term::Str(kani::any())),
        3 => term_roundtrip(Term::Date(kani::any())),
        4 => term_roundtrip(Term::Bool(kani::any())),
        5 => term_roundtrip(Term::Null),
        6 => term_roundtrip(Term::Bytes(vec![kani::any(), kani::any()])),
        _ => {
            let r = proto_id_to_token_term(&schema::TermV2 { content: None });
            assert!(r.is_err(), "a term without content is accepted");
            std::mem::forget(r);
        }
    }
}

/// the element rules of sets: no variables, no nested sets, one element type
fn set_case(t: schema::TermV2, expect_ok: bool) -> (bool, bool) {
    let r = proto_id_to_token_term(&t);
    let ok = r.is_ok();
    std::mem::forget(r);
    std::mem::forget(t);
    (ok, expect_ok)
}
fn set_of(a: schema::term_v2::Content, b: schema::term_v2::Content) -> schema::TermV2 {
    schema::TermV2 {
        content: Some(schema::term_v2::Content::Set(schema::TermSet {
            set: vec![schema::TermV2 { content: Some(a) }, schema::TermV2 { content: Some(b) }],
        })),
    }
}
#[kani::proof]
#[kani::stub(alloc::fmt::format, crate::kh_support::fmt_format_stub)]
#[kani::unwind(4)]
fn c09_convert_set_element_rules() {
    use schema::term_v2::Content as C;
    let sel: u8 = kani::any();
    let ok_matches = match sel {
        0 => set_case(set_of(C::Integer(kani::any()), C::Integer(kani::any())), true),
        1 => set_case(set_of(C::Integer(kani::any()), C::String(kani::any())), false),
        2 => set_case(set_of(C::Integer(kani::any()), C::Variable(kani::any())), false),
        3 => set_case(set_of(C::Variable(kani::any()), C::Variable(kani::any())), false),
        4 => set_case(set_of(C::Bool(kani::any()), C::Date(kani::any())), false),
        5 => set_case(set_of(C::Date(kani::any()), C::Date(kani::any())), true),
        _ => set_case(set_of(C::Integer(kani::any()), C::Set(schema::TermSet { set: Vec::new() })), false),
    };
    let (ok, expect_ok) = ok_matches;
    kani::cover!(ok, "witness-any: a homogeneous set was decoded");
    kani::cover!(!ok, "witness-any: an ill-formed set was refused");
    assert!(ok == expect_ok, "set element rules (no variables, no nested sets, one type) not enforced");
}
