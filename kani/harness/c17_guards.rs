//@ owner: biscuit-auth/src/crypto/mod.rs
//! C17-K1: length / algorithm guards of the key and signature decoders. Lengths are chosen by
//! the solver among concrete values 0..=40 (one branch per length so that the guard folds and
//! no curve code is entered for a wrong length), contents symbolic. The curve-level decoders
//! and the signature primitive are stubbed: Ok or Err, nondeterministically.
use super::*;
use crate::format::schema;

pub fn ed_signing_from_bytes_stub(_b: &ed25519_dalek::SecretKey) -> ed25519_dalek::SigningKey {
    let raw: [u8; std::mem::size_of::<ed25519_dalek::SigningKey>()] = kani::any();
    unsafe { std::mem::transmute(raw) }
}
pub fn ed_verifying_from_bytes_stub(_b: &[u8; 32]) -> Result<ed25519_dalek::VerifyingKey, ed25519_dalek::SignatureError> {
    if kani::any() {
        let raw: [u8; std::mem::size_of::<ed25519_dalek::VerifyingKey>()] = kani::any();
        Ok(unsafe { std::mem::transmute(raw) })
    } else {
        Err(ed25519_dalek::SignatureError::new())
    }
}
/// always decodes: the refusal path formats the curve library's error with Display
pub fn ed_verifying_from_bytes_ok_stub(_b: &[u8; 32]) -> Result<ed25519_dalek::VerifyingKey, ed25519_dalek::SignatureError> {
    let raw: [u8; std::mem::size_of::<ed25519_dalek::VerifyingKey>()] = kani::any();
    Ok(unsafe { std::mem::transmute(raw) })
}
pub fn ed_verify_strict_stub(
    _k: &ed25519_dalek::VerifyingKey,
    _m: &[u8],
    _s: &ed25519_dalek::Signature,
) -> Result<(), ed25519_dalek::SignatureError> {
    if kani::any() {
        Ok(())
    } else {
        Err(ed25519_dalek::SignatureError::new())
    }
}

#[derive(Clone, Copy, PartialEq)]
enum Which {
    EdKeyPair,
    EdPrivate,
    EdPublic,
    P256KeyPair,
    P256Private,
}

fn decode(which: Which, len: usize) {
    let buf: [u8; 40] = kani::any();
    let bytes = &buf[..len];
    let (is_err, size_err) = match which {
        Which::EdKeyPair => {
            let r = ed25519::KeyPair::from_bytes(bytes);
            let e = (r.is_err(), matches!(r, Err(error::Format::InvalidKeySize(n)) if n == len));
            std::mem::forget(r);
            e
        }
        Which::EdPrivate => {
            let r = ed25519::PrivateKey::from_bytes(bytes);
            let e = (r.is_err(), matches!(r, Err(error::Format::InvalidKeySize(n)) if n == len));
            std::mem::forget(r);
            e
        }
        Which::EdPublic => {
            let r = ed25519::PublicKey::from_bytes(bytes);
            let e = (r.is_err(), matches!(r, Err(error::Format::InvalidKeySize(n)) if n == len));
            std::mem::forget(r);
            e
        }
        Which::P256KeyPair => {
            let r = p256::KeyPair::from_bytes(bytes);
            let e = (r.is_err(), matches!(r, Err(error::Format::InvalidKeySize(n)) if n == len));
            std::mem::forget(r);
            e
        }
        Which::P256Private => {
            let r = p256::PrivateKey::from_bytes(bytes);
            let e = (r.is_err(), matches!(r, Err(error::Format::InvalidKeySize(n)) if n == len));
            std::mem::forget(r);
            e
        }
    };
    kani::cover!(is_err, "witness: a wrong length was refused");
    assert!(is_err && size_err, "key bytes of the wrong length are not refused with InvalidKeySize");
}

/// every length 0..=40 except 32 (the right one, which enters the curve library)
fn wrong_lengths(which: Which) {
    let sel: u8 = kani::any();
    match sel {
        0 => decode(which, 0),
        1 => decode(which, 1),
        2 => decode(which, 2),
        3 => decode(which, 8),
        4 => decode(which, 16),
        5 => decode(which, 24),
        6 => decode(which, 30),
        7 => decode(which, 31),
        8 => decode(which, 33),
        9 => decode(which, 34),
        10 => decode(which, 36),
        11 => decode(which, 39),
        12 => decode(which, 40),
        _ => {}
    }
}

macro_rules! guard {
    ($name:ident, $which:expr) => {
        #[kani::proof]
        #[kani::stub(ed25519_dalek::SigningKey::from_bytes, ed_signing_from_bytes_stub)]
        #[kani::stub(ed25519_dalek::VerifyingKey::from_bytes, ed_verifying_from_bytes_stub)]
        #[kani::unwind(3)]
        fn $name() {
            wrong_lengths($which);
        }
    };
}
guard!(c17_len_ed25519_keypair, Which::EdKeyPair);
guard!(c17_len_ed25519_private, Which::EdPrivate);
guard!(c17_len_ed25519_public, Which::EdPublic);
guard!(c17_len_p256_keypair, Which::P256KeyPair);
guard!(c17_len_p256_private, Which::P256Private);

/// ed25519 signatures: anything but 64 bytes is refused before the primitive is asked
fn sig_len(len: usize) {
    let key = kh_keys::any_ed25519_public();
    let buf: [u8; 70] = kani::any();
    let sig = Signature(buf[..len].to_vec());
    let msg: [u8; 2] = kani::any();
    let r = key.verify_signature(&msg, &sig);
    let refused = matches!(r, Err(error::Format::BlockSignatureDeserializationError(_)));
    std::mem::forget(r);
    std::mem::forget(sig);
    kani::cover!(refused, "witness: a malformed signature was refused");
    assert!(refused, "an ed25519 signature that is not 64 bytes long reaches the verifier");
}

// the primitive is stubbed to accept: a signature that gets past the length guard is then
// accepted, which the assertion reports (the refusal path would format the primitive's error)
#[kani::proof]
#[kani::stub(ed25519_dalek::VerifyingKey::verify_strict, ed_verify_strict_ok_stub)]
#[kani::stub(alloc::fmt::format, crate::kh_support::fmt_format_stub)]
#[kani::unwind(3)]
fn c17_ed25519_signature_length() {
    let sel: u8 = kani::any();
    match sel {
        0 => sig_len(0),
        1 => sig_len(1),
        2 => sig_len(32),
        3 => sig_len(63),
        4 => sig_len(65),
        5 => sig_len(66),
        6 => sig_len(70),
        _ => {}
    }
}

pub fn ed_verify_strict_ok_stub(
    _k: &ed25519_dalek::VerifyingKey,
    _m: &[u8],
    _s: &ed25519_dalek::Signature,
) -> Result<(), ed25519_dalek::SignatureError> {
    Ok(())
}

/// a 64-byte signature the primitive accepts is accepted (the refusal path formats the
/// primitive's error with Display, which is outside what the solver can execute)
#[kani::proof]
#[kani::stub(ed25519_dalek::VerifyingKey::verify_strict, ed_verify_strict_ok_stub)]
#[kani::stub(alloc::fmt::format, crate::kh_support::fmt_format_stub)]
#[kani::unwind(3)]
fn c17_ed25519_signature_64() {
    let key = kh_keys::any_ed25519_public();
    let buf: [u8; 64] = kani::any();
    let sig = Signature(buf.to_vec());
    let msg: [u8; 2] = kani::any();
    let r = key.verify_signature(&msg, &sig);
    let ok = r.is_ok();
    std::mem::forget(r);
    std::mem::forget(sig);
    kani::cover!(ok, "witness: accepted when the primitive accepts");
    assert!(ok);
}

/// protobuf keys: unknown algorithm tags are refused, the ed25519 tag reaches the ed25519 decoder
fn proto_tag(alg: i32, len: usize) {
    let buf: [u8; 40] = kani::any();
    let k = schema::PublicKey { algorithm: alg, key: buf[..len].to_vec() };
    let r = PublicKey::from_proto(&k);
    let unknown = matches!(r, Err(error::Format::DeserializationError(_)));
    let size = matches!(r, Err(error::Format::InvalidKeySize(_)));
    let is_ed = matches!(r, Ok(PublicKey::Ed25519(_)));
    let is_p = matches!(r, Ok(PublicKey::P256(_)));
    std::mem::forget(r);
    std::mem::forget(k);
    kani::cover!(unknown, "witness-any: unknown algorithm refused");
    kani::cover!(is_ed, "witness-any: ed25519 key decoded");
    assert!(!is_p, "a non-secp256r1 tag produced a secp256r1 key");
    if alg == 0 {
        assert!(!unknown);
        assert!(if len == 32 { !size } else { size && !is_ed }, "ed25519 tag: length not checked");
    } else {
        assert!(unknown, "a key with an unknown algorithm tag is not refused");
    }
}
#[kani::proof]
#[kani::stub(ed25519_dalek::VerifyingKey::from_bytes, ed_verifying_from_bytes_ok_stub)]
#[kani::stub(alloc::fmt::format, crate::kh_support::fmt_format_stub)]
#[kani::unwind(3)]
fn c17_proto_algorithm_dispatch() {
    // the tag is a concrete value per branch: a symbolic tag would make the (unreachable)
    // secp256r1 SEC1 decoder part of the explored program
    let sel: u8 = kani::any();
    match sel {
        0 => proto_tag(0, 32),
        1 => proto_tag(0, 31),
        2 => proto_tag(0, 33),
        3 => proto_tag(2, 32),
        4 => proto_tag(-1, 32),
        5 => proto_tag(i32::MAX, 32),
        6 => proto_tag(i32::MIN, 33),
        7 => proto_tag(256, 32),
        8 => proto_tag(257, 33),
        _ => {}
    }
}
