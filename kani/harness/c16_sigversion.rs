//@ owner: biscuit-auth/src/format/mod.rs
//! C16-K3: the signature scheme of a new block (`block_signature_version`) against the rule of
//! the specification: version 1 as soon as the block has an external signature, or declares
//! datalog >= 3.3, or one of the two keys is not ed25519, or ANY earlier block already uses
//! version 1 (never switch back); otherwise the highest earlier version (0 for the first block).
use super::*;
use crate::crypto::kh_keys::{any_keypair, any_public};

fn run(n_prev: usize, has_ext: bool, p256_block: bool, p256_next: bool) {
    let block_kp = any_keypair(p256_block);
    let next_kp = any_keypair(p256_next);
    let ext = if has_ext {
        Some(ExternalSignature { public_key: any_public(false), signature: crypto::Signature::from_vec(Vec::new()) })
    } else {
        None
    };
    let block_version: Option<u32> = if kani::any() { Some(kani::any()) } else { None };
    // earlier blocks, in the order `append` passes them: blocks..., authority
    let prev: [u32; 3] = kani::any();
    kani::assume(prev[0] <= 1 && prev[1] <= 1 && prev[2] <= 1);
    let got = block_signature_version(&block_kp, &next_kp, &ext, &block_version, prev[..n_prev].iter().copied());
    let mut any_prev_v1 = false;
    let mut i = 0;
    while i < n_prev {
        if prev[i] == 1 {
            any_prev_v1 = true;
        }
        i += 1;
    }
    let needs_v1 = has_ext || matches!(block_version, Some(v) if v >= 6) || p256_block || p256_next;
    let expected = if needs_v1 || any_prev_v1 { 1 } else { 0 };
    std::mem::forget(block_kp);
    std::mem::forget(next_kp);
    std::mem::forget(ext);
    kani::cover!(got == 1, "witness-any: chained signature scheme chosen");
    kani::cover!(got == 0, "witness-any: legacy signature scheme chosen");
    assert!(got == expected, "signature version differs from the specification (or switches back to 0)");
}

macro_rules! sv {
    ($name:ident, $n:expr) => {
        #[kani::proof]
        #[kani::unwind(5)]
        fn $name() {
            let sel: u8 = kani::any();
            match sel {
                0 => run($n, false, false, false),
                1 => run($n, true, false, false),
                2 => run($n, false, true, false),
                3 => run($n, false, false, true),
                4 => run($n, true, true, true),
                _ => {}
            }
        }
    };
}
sv!(c16_sigversion_first_block, 0);
sv!(c16_sigversion_prev1, 1);
sv!(c16_sigversion_prev2, 2);
sv!(c16_sigversion_prev3, 3);
