//@ owner: biscuit-auth/src/datalog/origin.rs
//! C03-K1 / C04-K1: the trust computation `TrustedOrigins::{default, from_scopes, contains}`
//! against an independent bit-mask specification of the scope semantics:
//!   no scope      -> the defaults given + own block + authorizer
//!   authority     -> block 0;  previous -> blocks 0..=current (nothing for the authorizer)
//!   public key k  -> exactly the blocks signed by key k;  always: own block + authorizer.
use super::*;

const AUTHORIZER: usize = usize::MAX;
fn bit(i: usize) -> u64 {
    if i == AUTHORIZER {
        1 << 63
    } else {
        1 << i
    }
}
fn any_block() -> usize {
    let b: usize = kani::any();
    kani::assume(b <= 5);
    b
}
fn any_scope() -> Scope {
    match kani::any::<u8>() {
        0 => Scope::Authority,
        1 => Scope::Previous,
        _ => {
            let k: u64 = kani::any();
            kani::assume(k <= 2);
            Scope::PublicKey(k)
        }
    }
}

fn run(n: usize) {
    // key 0 signed one block, key 1 signed two blocks, key 2 signed none
    let (b0, b1, b2) = (any_block(), any_block(), any_block());
    kani::assume(b0 >= 1 && b1 >= 1 && b2 >= 1);
    let mut pk: HashMap<usize, Vec<usize>> = HashMap::new();
    pk.insert(0, vec![b0]);
    pk.insert(1, vec![b1, b2]);
    let cur: usize = if kani::any() { AUTHORIZER } else { any_block() };
    let scopes_arr: [Scope; 4] = [any_scope(), any_scope(), any_scope(), any_scope()];
    let scopes = &scopes_arr[..n];
    // the defaults handed in by the callers: TrustedOrigins::default() or the block's own set
    let default = TrustedOrigins::default();
    let mut spec: u64 = 0;
    let mut names_key_of_probe = false;
    let probe: usize = if kani::any() { AUTHORIZER } else { any_block() };
    let mut i = 0;
    while i < n {
        match &scopes[i] {
            Scope::Authority => spec |= bit(0),
            Scope::Previous => {
                if cur != AUTHORIZER {
                    let mut j = 0;
                    while j <= cur {
                        spec |= bit(j);
                        j += 1;
                    }
                }
            }
            Scope::PublicKey(k) => {
                if *k == 0 {
                    spec |= bit(b0);
                    names_key_of_probe |= probe == b0;
                } else if *k == 1 {
                    spec |= bit(b1) | bit(b2);
                    names_key_of_probe |= probe == b1 || probe == b2;
                }
            }
        }
        i += 1;
    }
    if n == 0 {
        spec = bit(0) | bit(AUTHORIZER);
    }
    spec |= bit(cur) | bit(AUTHORIZER);
    let t = TrustedOrigins::from_scopes(scopes, &default, cur, &pk);
    let mut o = Origin::default();
    o.insert(probe);
    let trusted = t.contains(&o);
    std::mem::forget(pk);
    kani::cover!(trusted, "witness: some origin is trusted");
    kani::cover!(!trusted, "witness: some origin is not trusted");
    kani::cover!(trusted && probe != cur && probe != AUTHORIZER && probe != 0, "a later block trusted through a key scope");
    assert!(trusted == (spec & bit(probe) != 0), "trusted origins differ from the scope semantics");
    // attenuation corollary: a block that comes after the current one is trusted only through a
    // scope naming a key that signed it; the authorizer only trusts blocks > 0 through key scopes
    if probe != AUTHORIZER && probe != 0 && trusted && (cur == AUTHORIZER || probe > cur) {
        assert!(names_key_of_probe, "a later block is trusted without a scope naming its key");
    }
    // a fact that mixes a trusted and an untrusted origin is not visible
    let other: usize = any_block();
    let mut o2 = Origin::default();
    o2.insert(probe);
    o2.insert(other);
    assert!(t.contains(&o2) == ((spec & bit(probe) != 0) && (spec & bit(other) != 0)), "a fact with an untrusted contributor is visible");
}

macro_rules! trust {
    ($name:ident, $n:expr) => {
        #[kani::proof]
        #[kani::unwind(9)]
        fn $name() {
            run($n);
        }
    };
}
trust!(c03_trust_scopes0, 0);
trust!(c03_trust_scopes1, 1);
trust!(c03_trust_scopes2, 2);
trust!(c03_trust_scopes3, 3);

#[kani::proof]
#[kani::unwind(3)]
fn c03_trust_default() {
    let d = TrustedOrigins::default();
    let probe: usize = if kani::any() { AUTHORIZER } else { any_block() };
    let mut o = Origin::default();
    o.insert(probe);
    assert!(d.contains(&o) == (probe == 0 || probe == AUTHORIZER), "default trust is not {authority, authorizer}");
}

/// C04-K1b: block-level scopes are the defaults of the block's rules and checks: a rule without
/// its own scope sees what the block trusts; a rule with a scope replaces it (plus own block and
/// authorizer), it does not add to it.
fn spec_of(scopes: &[Scope], cur: usize, b0: usize, b1: usize) -> u64 {
    let mut spec: u64 = 0;
    let mut i = 0;
    while i < scopes.len() {
        match &scopes[i] {
            Scope::Authority => spec |= bit(0),
            Scope::Previous => {
                if cur != AUTHORIZER {
                    let mut j = 0;
                    while j <= cur {
                        spec |= bit(j);
                        j += 1;
                    }
                }
            }
            Scope::PublicKey(k) => {
                if *k == 0 {
                    spec |= bit(b0);
                } else if *k == 1 {
                    spec |= bit(b1);
                }
            }
        }
        i += 1;
    }
    spec
}
fn inherit(n_block: usize, n_rule: usize) {
    let (b0, b1) = (any_block(), any_block());
    kani::assume(b0 >= 1 && b1 >= 1);
    let mut pk: HashMap<usize, Vec<usize>> = HashMap::new();
    pk.insert(0, vec![b0]);
    pk.insert(1, vec![b1]);
    let cur: usize = if kani::any() { AUTHORIZER } else { any_block() };
    let block_scopes_arr: [Scope; 2] = [any_scope(), any_scope()];
    let rule_scopes_arr: [Scope; 2] = [any_scope(), any_scope()];
    let block_scopes = &block_scopes_arr[..n_block];
    let rule_scopes = &rule_scopes_arr[..n_rule];
    let block_set = TrustedOrigins::from_scopes(block_scopes, &TrustedOrigins::default(), cur, &pk);
    let rule_set = TrustedOrigins::from_scopes(rule_scopes, &block_set, cur, &pk);
    let always = bit(cur) | bit(AUTHORIZER);
    let block_spec = if n_block == 0 { bit(0) | always } else { spec_of(block_scopes, cur, b0, b1) | always };
    let rule_spec = if n_rule == 0 { block_spec } else { spec_of(rule_scopes, cur, b0, b1) | always };
    let probe: usize = if kani::any() { AUTHORIZER } else { any_block() };
    let mut o = Origin::default();
    o.insert(probe);
    let trusted = rule_set.contains(&o);
    std::mem::forget(pk);
    kani::cover!(trusted, "witness: some origin is trusted");
    kani::cover!(!trusted, "witness: some origin is not trusted");
    assert!(trusted == (rule_spec & bit(probe) != 0), "rule / check scope does not combine with the block scope as specified");
}
macro_rules! inh {
    ($name:ident, $nb:expr, $nr:expr) => {
        #[kani::proof]
        #[kani::unwind(9)]
        fn $name() {
            inherit($nb, $nr);
        }
    };
}
inh!(c04_scope_block0_rule0, 0, 0);
inh!(c04_scope_block1_rule0, 1, 0);
inh!(c04_scope_block2_rule0, 2, 0);
inh!(c04_scope_block1_rule1, 1, 1);
inh!(c04_scope_block2_rule2, 2, 2);
inh!(c04_scope_block0_rule2, 0, 2);
trust!(c03_trust_scopes4, 4);
