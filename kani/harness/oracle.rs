//@ owner: biscuit-auth/src/crypto/mod.rs
//! Signature oracle (DESIGN 2.4). `PublicKey::verify_signature` and `KeyPair::sign` are
//! routed here while a harness has switched the oracle on. No cryptographic meaning is
//! assumed: `verify` answers Ok or Err as the solver pleases and records the query;
//! `sign` returns solver-chosen bytes and records the query. Harnesses assert WHICH
//! (key, message, signature) triples the library submits and requires to be accepted.
use super::*;

pub(crate) const LOG_MAX: usize = 6;
pub(crate) struct Query {
    pub key: PublicKey,
    pub msg: Vec<u8>,
    pub sig: Vec<u8>,
    pub accepted: bool,
}
pub(crate) struct SignQuery {
    pub key: PublicKey,
    pub msg: Vec<u8>,
    pub sig: Vec<u8>,
}
static mut ON: bool = false;
static mut N_VERIFY: usize = 0;
static mut N_SIGN: usize = 0;
static mut VERIFY_LOG: [Option<Query>; LOG_MAX] = [None, None, None, None, None, None];
static mut SIGN_LOG: [Option<SignQuery>; LOG_MAX] = [None, None, None, None, None, None];
/// length of the signatures the signing oracle hands out
pub(crate) const SIG_LEN: usize = 3;

pub(crate) fn on() -> bool {
    unsafe { ON }
}
pub(crate) fn switch_on() {
    unsafe {
        ON = true;
        N_VERIFY = 0;
        N_SIGN = 0;
    }
}
pub(crate) fn n_verify() -> usize {
    unsafe { N_VERIFY }
}
pub(crate) fn n_sign() -> usize {
    unsafe { N_SIGN }
}
#[allow(static_mut_refs)]
pub(crate) fn verify_query(i: usize) -> &'static Query {
    unsafe { VERIFY_LOG[i].as_ref().unwrap() }
}
#[allow(static_mut_refs)]
pub(crate) fn sign_query(i: usize) -> &'static SignQuery {
    unsafe { SIGN_LOG[i].as_ref().unwrap() }
}

pub(crate) fn verify(key: &PublicKey, data: &[u8], signature: &Signature) -> Result<(), error::Format> {
    let accepted: bool = kani::any();
    unsafe {
        kani::assume(N_VERIFY < LOG_MAX);
        VERIFY_LOG[N_VERIFY] = Some(Query { key: *key, msg: data.to_vec(), sig: signature.0.to_vec(), accepted });
        N_VERIFY += 1;
    }
    if accepted {
        Ok(())
    } else {
        Err(error::Format::Signature(error::Signature::InvalidSignature(String::new())))
    }
}

pub(crate) fn sign(key: &KeyPair, data: &[u8]) -> Result<Signature, error::Format> {
    let bytes: [u8; SIG_LEN] = kani::any();
    let sig = bytes.to_vec();
    unsafe {
        kani::assume(N_SIGN < LOG_MAX);
        SIGN_LOG[N_SIGN] = Some(SignQuery { key: key.public(), msg: data.to_vec(), sig: bytes.to_vec() });
        N_SIGN += 1;
    }
    Ok(Signature(sig))
}

/// uninterpreted `public key of an ed25519 secret`: a function of the secret's bytes (memo of
/// two entries), otherwise arbitrary. The real code derives it with a scalar multiplication.
static mut PUB_MEMO: [Option<([u8; 32], [u8; std::mem::size_of::<ed25519::PublicKey>()])>; 2] = [None, None];
#[allow(static_mut_refs)]
pub(crate) fn ed25519_public_of(secret: &[u8; 32]) -> [u8; std::mem::size_of::<ed25519::PublicKey>()] {
    unsafe {
        if let Some((s, p)) = &PUB_MEMO[0] {
            if s == secret {
                return *p;
            }
        }
        if let Some((s, p)) = &PUB_MEMO[1] {
            if s == secret {
                return *p;
            }
        }
        let fresh: [u8; std::mem::size_of::<ed25519::PublicKey>()] = kani::any();
        if PUB_MEMO[0].is_none() {
            PUB_MEMO[0] = Some((*secret, fresh));
        } else {
            kani::assume(PUB_MEMO[1].is_none());
            PUB_MEMO[1] = Some((*secret, fresh));
        }
        fresh
    }
}

/// deterministic stand-in for the SEC1 compressed encoding of a secp256r1 key object
pub(crate) fn p256_bytes(raw: &[u8]) -> Vec<u8> {
    let mut v = Vec::with_capacity(33);
    v.push(2 + (raw[32] & 1));
    let mut i = 0;
    while i < 32 {
        v.push(raw[i]);
        i += 1;
    }
    v
}
