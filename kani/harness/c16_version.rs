//@ owner: biscuit-auth/src/datalog/mod.rs
//! C16-K1/K2: the version a block needs (`get_schema_version`) against an independent
//! feature -> version table, and the compatibility gate for every declared version.
//! Each harness picks one feature shape (solver-chosen selector, one branch per shape with a
//! concrete structure) and places it at a solver-chosen site of a block; payloads are symbolic.
use super::*;
use crate::builder::CheckKind;
use crate::datalog::expression::{Binary, Expression, Op, Unary};
use crate::vstd::{BTreeMap, BTreeSet};

const V30: u32 = 3;
const V31: u32 = 4;
const V33: u32 = 6;

fn set_of(t: Term) -> Term {
    let mut s = BTreeSet::new();
    s.insert(t);
    Term::Set(s)
}

/// term shapes with the version their presence requires
fn term_shape(sel: u8) -> (Term, u32) {
    match sel {
        0 => (Term::Integer(kani::any()), V30),
        1 => (Term::Str(kani::any()), V30),
        2 => (Term::Date(kani::any()), V30),
        3 => (Term::Bytes(vec![kani::any()]), V30),
        4 => (Term::Bool(kani::any()), V30),
        5 => (set_of(Term::Integer(kani::any())), V30),
        6 => (Term::Set(BTreeSet::new()), V30),
        7 => (Term::Null, V33),
        8 => (set_of(Term::Null), V33),
        9 => (Term::Array(vec![Term::Integer(kani::any())]), V33),
        10 => (Term::Array(Vec::new()), V33),
        11 => {
            let mut m = BTreeMap::new();
            m.insert(MapKey::Integer(kani::any()), Term::Integer(kani::any()));
            (Term::Map(m), V33)
        }
        12 => (Term::Map(BTreeMap::new()), V33),
        _ => (Term::Variable(kani::any()), V30),
    }
}

fn binary_shape(sel: u8) -> (Binary, u32) {
    match sel {
        0 => (Binary::LessThan, V30),
        1 => (Binary::GreaterThan, V30),
        2 => (Binary::LessOrEqual, V30),
        3 => (Binary::GreaterOrEqual, V30),
        4 => (Binary::Equal, V30),
        5 => (Binary::Contains, V30),
        6 => (Binary::Prefix, V30),
        7 => (Binary::Suffix, V30),
        8 => (Binary::Regex, V30),
        9 => (Binary::Add, V30),
        10 => (Binary::Sub, V30),
        11 => (Binary::Mul, V30),
        12 => (Binary::Div, V30),
        13 => (Binary::And, V30),
        14 => (Binary::Or, V30),
        15 => (Binary::Intersection, V30),
        16 => (Binary::Union, V30),
        17 => (Binary::BitwiseAnd, V31),
        18 => (Binary::BitwiseOr, V31),
        19 => (Binary::BitwiseXor, V31),
        20 => (Binary::NotEqual, V31),
        21 => (Binary::HeterogeneousEqual, V33),
        22 => (Binary::HeterogeneousNotEqual, V33),
        23 => (Binary::LazyAnd, V33),
        24 => (Binary::LazyOr, V33),
        25 => (Binary::All, V33),
        26 => (Binary::Any, V33),
        27 => (Binary::Get, V33),
        _ => (Binary::Ffi(kani::any()), V33),
    }
}

fn unary_shape(sel: u8) -> (Unary, u32) {
    match sel {
        0 => (Unary::Negate, V30),
        1 => (Unary::Parens, V30),
        2 => (Unary::Length, V30),
        3 => (Unary::TypeOf, V33),
        _ => (Unary::Ffi(kani::any()), V33),
    }
}

fn pred1(name: u64, t: Term) -> Predicate {
    Predicate { name, terms: vec![t] }
}
fn plain_rule(expressions: Vec<Expression>, scopes: Vec<Scope>) -> Rule {
    Rule {
        head: pred1(10, Term::Variable(0)),
        body: vec![pred1(11, Term::Variable(0))],
        expressions,
        scopes,
    }
}

/// decide and compare; `declared` is any u32: the gate must accept exactly declared >= needed
/// (range 3..=6 is the caller's business, checked in c16_gate_*)
fn decide(facts: Vec<Fact>, rules: Vec<Rule>, checks: Vec<Check>, scopes: Vec<Scope>, needed: u32) {
    let v = get_schema_version(&facts, &rules, &checks, &scopes);
    let got = v.version();
    let declared: u32 = kani::any();
    let gate_ok = v.check_compatibility(declared).is_ok();
    std::mem::forget(facts);
    std::mem::forget(rules);
    std::mem::forget(checks);
    std::mem::forget(scopes);
    kani::cover!(got == V33, "witness-any: a 3.3 feature was detected");
    kani::cover!(got == V31, "witness-any: a 3.1 feature was detected");
    kani::cover!(got == V30, "witness-any: a plain 3.0 block");
    assert!(got == needed, "declared version differs from the lowest version that includes every feature used");
    // 3.2 (5) adds third-party blocks only, no language feature: a v5 block is gated like v4
    let expect_ok = if needed == V33 { declared >= V33 } else if needed == V31 { declared >= V31 } else { true };
    assert!(gate_ok == expect_ok, "compatibility gate accepts an under-declared block or refuses a sufficient version");
}

/// a term shape at one of five sites: fact, rule head, rule body, check query body, expression value
fn term_at_site(term_sel: u8) {
    let site: u8 = kani::any();
    match site {
        0 => {
            let (t, need) = term_shape(term_sel);
            decide(vec![Fact { predicate: pred1(1, t) }], vec![], vec![], vec![], need)
        }
        1 => {
            let (t, need) = term_shape(term_sel);
            let r = Rule { head: pred1(10, t), body: vec![pred1(11, Term::Variable(0))], expressions: vec![], scopes: vec![] };
            decide(vec![], vec![r], vec![], vec![], need)
        }
        2 => {
            let (t, need) = term_shape(term_sel);
            let r = Rule { head: pred1(10, Term::Variable(0)), body: vec![pred1(11, Term::Variable(0)), pred1(12, t)], expressions: vec![], scopes: vec![] };
            decide(vec![], vec![r], vec![], vec![], need)
        }
        3 => {
            let (t, need) = term_shape(term_sel);
            let q = Rule { head: pred1(10, Term::Variable(0)), body: vec![pred1(12, t)], expressions: vec![], scopes: vec![] };
            decide(vec![], vec![], vec![Check { queries: vec![q], kind: CheckKind::One }], vec![], need)
        }
        4 => {
            let (t, need) = term_shape(term_sel);
            let e = Expression { ops: vec![Op::Value(t)] };
            decide(vec![], vec![plain_rule(vec![e], vec![])], vec![], vec![], need)
        }
        5 => {
            let (t, need) = term_shape(term_sel);
            let e = Expression { ops: vec![Op::Value(t)] };
            let q = plain_rule(vec![e], vec![]);
            decide(vec![], vec![], vec![Check { queries: vec![q], kind: CheckKind::One }], vec![], need)
        }
        _ => {}
    }
}

macro_rules! term_harness {
    ($name:ident, $sel:expr) => {
        #[kani::proof]
        #[kani::stub(regex::Regex::new, crate::kh_support::regex_new_stub)]
        #[kani::stub(regex::Regex::is_match, crate::kh_support::regex_is_match_stub)]
        #[kani::unwind(4)]
        fn $name() {
            term_at_site($sel);
        }
    };
}
term_harness!(c16_term_int, 0);
term_harness!(c16_term_str, 1);
term_harness!(c16_term_date, 2);
term_harness!(c16_term_bytes, 3);
term_harness!(c16_term_bool, 4);
term_harness!(c16_term_set_int, 5);
term_harness!(c16_term_set_empty, 6);
term_harness!(c16_term_null, 7);
term_harness!(c16_term_set_null, 8);
term_harness!(c16_term_array, 9);
term_harness!(c16_term_array_empty, 10);
term_harness!(c16_term_map, 11);
term_harness!(c16_term_map_empty, 12);
term_harness!(c16_term_variable, 13);

/// an operator inside a rule expression or a check-query expression
fn op_at_site(e: Expression, need: u32) {
    if kani::any() {
        decide(vec![], vec![plain_rule(vec![e], vec![])], vec![], vec![], need)
    } else {
        let q = plain_rule(vec![e], vec![]);
        decide(vec![], vec![], vec![Check { queries: vec![q], kind: CheckKind::One }], vec![], need)
    }
}

macro_rules! binary_group {
    ($name:ident, $lo:expr, $hi:expr) => {
        #[kani::proof]
        #[kani::stub(regex::Regex::new, crate::kh_support::regex_new_stub)]
        #[kani::stub(regex::Regex::is_match, crate::kh_support::regex_is_match_stub)]
        #[kani::unwind(7)]
        fn $name() {
            let sel: u8 = kani::any();
            kani::assume(sel >= $lo && sel <= $hi);
            // one branch per operator so that the structure stays concrete
            let mut k = $lo;
            while k <= $hi {
                if sel == k {
                    let (b, need) = binary_shape(k);
                    let e = Expression { ops: vec![Op::Value(Term::Variable(0)), Op::Value(Term::Integer(kani::any())), Op::Binary(b)] };
                    op_at_site(e, need);
                    return;
                }
                k += 1;
            }
        }
    };
}
binary_group!(c16_binary_00_03, 0u8, 3u8);
binary_group!(c16_binary_04_07, 4u8, 7u8);
binary_group!(c16_binary_08_11, 8u8, 11u8);
binary_group!(c16_binary_12_15, 12u8, 15u8);
binary_group!(c16_binary_16_19, 16u8, 19u8);
binary_group!(c16_binary_20_23, 20u8, 23u8);
binary_group!(c16_binary_24_28, 24u8, 28u8);

#[kani::proof]
#[kani::stub(regex::Regex::new, crate::kh_support::regex_new_stub)]
#[kani::stub(regex::Regex::is_match, crate::kh_support::regex_is_match_stub)]
#[kani::unwind(7)]
fn c16_unary_and_closure() {
    let sel: u8 = kani::any();
    match sel {
        0 | 1 | 2 | 3 | 4 => {
            let mut k = 0u8;
            while k <= 4 {
                if sel == k {
                    let (u, need) = unary_shape(k);
                    let e = Expression { ops: vec![Op::Value(Term::Variable(0)), Op::Unary(u)] };
                    op_at_site(e, need);
                    return;
                }
                k += 1;
            }
        }
        5 => {
            // a closure is a 3.3 feature whatever it contains
            let body = vec![Op::Value(Term::Variable(1)), Op::Value(Term::Integer(kani::any())), Op::Binary(Binary::LessThan)];
            let e = Expression { ops: vec![Op::Value(Term::Variable(0)), Op::Closure(vec![1], body)] };
            op_at_site(e, V33)
        }
        _ => {}
    }
}

#[kani::proof]
#[kani::stub(regex::Regex::new, crate::kh_support::regex_new_stub)]
#[kani::stub(regex::Regex::is_match, crate::kh_support::regex_is_match_stub)]
#[kani::unwind(4)]
fn c16_check_kinds_and_scopes() {
    let sel: u8 = kani::any();
    let scope = match kani::any::<u8>() {
        0 => Scope::Authority,
        1 => Scope::Previous,
        _ => Scope::PublicKey(kani::any()),
    };
    match sel {
        0 => decide(vec![], vec![], vec![Check { queries: vec![plain_rule(vec![], vec![])], kind: CheckKind::One }], vec![], V30),
        1 => decide(vec![], vec![], vec![Check { queries: vec![plain_rule(vec![], vec![])], kind: CheckKind::All }], vec![], V31),
        2 => decide(vec![], vec![], vec![Check { queries: vec![plain_rule(vec![], vec![])], kind: CheckKind::Reject }], vec![], V33),
        // scopes: on the block, on a rule, on a check query
        3 => decide(vec![], vec![], vec![], vec![scope], V31),
        4 => decide(vec![], vec![plain_rule(vec![], vec![scope])], vec![], vec![], V31),
        5 => decide(vec![], vec![], vec![Check { queries: vec![plain_rule(vec![], vec![scope])], kind: CheckKind::One }], vec![], V31),
        // second query of a check carries the feature
        6 => decide(vec![], vec![], vec![Check { queries: vec![plain_rule(vec![], vec![]), plain_rule(vec![], vec![scope])], kind: CheckKind::One }], vec![], V31),
        // the maximum wins: check all + null fact
        7 => decide(vec![Fact { predicate: pred1(1, Term::Null) }], vec![], vec![Check { queries: vec![plain_rule(vec![], vec![])], kind: CheckKind::All }], vec![], V33),
        // the feature is in the second fact / second rule / second check
        8 => decide(vec![Fact { predicate: pred1(1, Term::Integer(kani::any())) }, Fact { predicate: pred1(1, Term::Null) }], vec![], vec![], vec![], V33),
        9 => decide(vec![], vec![plain_rule(vec![], vec![]), plain_rule(vec![], vec![scope])], vec![], vec![], V31),
        10 => decide(vec![], vec![], vec![Check { queries: vec![plain_rule(vec![], vec![])], kind: CheckKind::One }, Check { queries: vec![plain_rule(vec![], vec![])], kind: CheckKind::Reject }], vec![], V33),
        11 => decide(vec![], vec![], vec![], vec![], V30),
        _ => {}
    }
}

/// two features in one block: the declared version is the maximum of what each needs
#[kani::proof]
#[kani::stub(regex::Regex::new, crate::kh_support::regex_new_stub)]
#[kani::stub(regex::Regex::is_match, crate::kh_support::regex_is_match_stub)]
#[kani::unwind(4)]
fn c16_two_features_maximum() {
    let sel: u8 = kani::any();
    let scope = Scope::PublicKey(kani::any());
    match sel {
        // a 3.1 operator in a rule and a 3.3 term in a fact
        0 => {
            let e = Expression { ops: vec![Op::Value(Term::Variable(0)), Op::Value(Term::Integer(kani::any())), Op::Binary(Binary::BitwiseXor)] };
            decide(vec![Fact { predicate: pred1(1, Term::Null) }], vec![plain_rule(vec![e], vec![])], vec![], vec![], V33)
        }
        // a scope (3.1) on a rule and check all (3.1)
        1 => decide(vec![], vec![plain_rule(vec![], vec![scope])], vec![Check { queries: vec![plain_rule(vec![], vec![])], kind: CheckKind::All }], vec![], V31),
        // 3.1 operator only in the second expression of a rule, plain 3.0 elsewhere
        2 => {
            let e0 = Expression { ops: vec![Op::Value(Term::Variable(0)), Op::Value(Term::Integer(kani::any())), Op::Binary(Binary::LessThan)] };
            let e1 = Expression { ops: vec![Op::Value(Term::Variable(0)), Op::Value(Term::Integer(kani::any())), Op::Binary(Binary::NotEqual)] };
            decide(vec![Fact { predicate: pred1(1, Term::Integer(kani::any())) }], vec![plain_rule(vec![e0, e1], vec![])], vec![], vec![], V31)
        }
        // a closure (3.3) in a check and a block scope (3.1)
        3 => {
            let body = vec![Op::Value(Term::Variable(1))];
            let e = Expression { ops: vec![Op::Value(Term::Variable(0)), Op::Closure(vec![1], body), Op::Binary(Binary::Any)] };
            let q = plain_rule(vec![e], vec![]);
            decide(vec![], vec![], vec![Check { queries: vec![q], kind: CheckKind::One }], vec![scope], V33)
        }
        // second term of a two-term fact
        4 => decide(vec![Fact { predicate: Predicate { name: 1, terms: vec![Term::Integer(kani::any()), Term::Array(vec![Term::Bool(kani::any())])] } }], vec![], vec![], vec![], V33),
        _ => {}
    }
}
