//@ owner: biscuit-auth/src/token/builder/authorizer.rs
//! C03-K4 / C07-K3: loading a block into the authorizer translates its block-level scopes from
//! the table the block's author used (the token's key table for a first-party block, the block's
//! OWN table for a third-party block) to the authorizer's key table, and stores the translated
//! scopes in the block (they are what the block's checks are evaluated with).
use super::*;
use crate::crypto::kh_keys::any_public;
use crate::datalog::{SymbolTable, World};
use crate::token::Block;
use crate::token::Scope as TScope;

fn run(third_party: bool) {
    // three distinct key objects: index 0 of the token table, index 0 of the block's own table,
    // and a key already known to the authorizer
    let (k_token, k_block, k_auth) = (any_public(false), any_public(false), any_public(false));
    kani::assume(k_token != k_block && k_token != k_auth && k_block != k_auth);
    let mut token_symbols = SymbolTable::new();
    token_symbols.public_keys.insert(&k_token);
    let mut own = SymbolTable::new();
    own.public_keys.insert(&k_block);
    let mut authorizer_symbols = SymbolTable::new();
    authorizer_symbols.public_keys.insert(&k_auth);
    let mut block = Block {
        symbols: own,
        facts: Vec::new(),
        rules: Vec::new(),
        checks: Vec::new(),
        context: None,
        version: 6,
        external_key: if third_party { Some(any_public(false)) } else { None },
        public_keys: crate::token::public_keys::PublicKeys::new(),
        scopes: vec![TScope::PublicKey(0)],
    };
    let mut map: HashMap<usize, Vec<usize>> = HashMap::new();
    let mut world = World::new();
    let r = load_and_translate_block(&mut block, 1, &token_symbols, &mut authorizer_symbols, &mut map, &mut world);
    let ok = r.is_ok();
    std::mem::forget(r);
    kani::cover!(ok, "witness: block loaded");
    assert!(ok, "loading a block with a resolvable key scope fails");
    // the scope now names, in the authorizer's table, the key the block's author wrote
    let expected = if third_party { k_block } else { k_token };
    let translated = match &block.scopes[0] {
        TScope::PublicKey(id) => authorizer_symbols.public_keys.get_key(*id).map(|k| *k == expected).unwrap_or(false),
        _ => false,
    };
    assert!(block.scopes.len() == 1 && translated, "block-level key scope is not translated to the authorizer's table (or resolved against the wrong table)");
    assert!(world.facts.len() == 0, "loading an empty block created facts");
    std::mem::forget(block);
    std::mem::forget(world);
    std::mem::forget(map);
    std::mem::forget(token_symbols);
    std::mem::forget(authorizer_symbols);
}

macro_rules! l {
    ($name:ident, $tp:expr) => {
        #[kani::proof]
        #[kani::stub(regex::Regex::new, crate::kh_support::regex_new_stub)]
        #[kani::stub(regex::Regex::is_match, crate::kh_support::regex_is_match_stub)]
        #[kani::stub(alloc::fmt::format, crate::kh_support::fmt_format_stub)]
        #[kani::unwind(6)]
        fn $name() {
            run($tp);
        }
    };
}
l!(c03_load_first_party_block_scope, false);
l!(c03_load_third_party_block_scope, true);

/// C13 (snapshot of the token's blocks): `Block::translate` re-expresses a block's block-level key
/// scope in the target key table (the snapshot's), it does not copy the index
fn translate_scope() {
    let (k_from, k_to) = (any_public(false), any_public(false));
    kani::assume(k_from != k_to);
    // source table: [k_from]; target table starts as [k_to]: index 0 names different keys
    let mut from = SymbolTable::new();
    from.public_keys.insert(&k_from);
    let mut to = SymbolTable::new();
    to.public_keys.insert(&k_to);
    let block = Block {
        symbols: SymbolTable::new(),
        facts: Vec::new(),
        rules: Vec::new(),
        checks: Vec::new(),
        context: None,
        version: 6,
        external_key: None,
        public_keys: crate::token::public_keys::PublicKeys::new(),
        scopes: vec![TScope::PublicKey(0), TScope::Authority],
    };
    let r = block.translate(&from, &mut to);
    let ok = match &r {
        Ok(b) => {
            b.scopes.len() == 2
                && matches!(&b.scopes[1], TScope::Authority)
                && match &b.scopes[0] {
                    TScope::PublicKey(id) => to.public_keys.get_key(*id).map(|k| *k == k_from).unwrap_or(false),
                    _ => false,
                }
        }
        Err(_) => false,
    };
    kani::cover!(ok, "witness: block translated");
    assert!(ok, "a translated block's key scope does not name the same key in the target table");
    std::mem::forget(r);
    std::mem::forget(block);
    std::mem::forget(from);
    std::mem::forget(to);
}
#[kani::proof]
#[kani::stub(regex::Regex::new, crate::kh_support::regex_new_stub)]
#[kani::stub(regex::Regex::is_match, crate::kh_support::regex_is_match_stub)]
#[kani::stub(alloc::fmt::format, crate::kh_support::fmt_format_stub)]
#[kani::unwind(6)]
fn c13_block_translate_scopes() {
    translate_scope();
}
