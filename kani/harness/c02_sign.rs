//@ owner: biscuit-auth/src/format/mod.rs
//! C02-K1/K2, C08-K1/K3, C15-K2, C07-K2: what the container operations sign and what they keep.
//! `append_serialized` and `seal` on a directly built container with the signing oracle:
//! the one message handed to the primitive is the specification's layout for the new block
//! (with the previous block's signature and the version `block_signature_version` demands),
//! signed by the key pair of the proof secret; earlier blocks, their signatures and the root
//! key id are carried over bit for bit; a sealed container refuses every extension before
//! anything is signed.
use super::kh_c01_verify::{any_block, any_bytes, spec_block_payload, spec_seal_payload, DATA_LEN, SIG_LEN};
use super::*;
use crate::crypto::kh_keys::{any_keypair, any_private, any_public};
use crate::crypto::kh_oracle as oracle;
use crate::crypto::{Block as SBlock, ExternalSignature as Ext};

fn base(n_blocks: usize, v_auth: u32, v_b1: u32, sealed: bool, p256_secret: bool) -> SerializedBiscuit {
    let authority = any_block(v_auth, false, false);
    let blocks = if n_blocks == 2 {
        vec![any_block(v_b1, false, false), any_block(v_b1, false, false)]
    } else if n_blocks == 1 {
        vec![any_block(v_b1, false, false)]
    } else {
        Vec::new()
    };
    let proof = if sealed {
        TokenNext::Seal(crypto::Signature::from_vec(any_bytes::<SIG_LEN>()))
    } else {
        TokenNext::Secret(any_private(p256_secret))
    };
    SerializedBiscuit { root_key_id: kani::any(), authority, blocks, proof }
}

fn same_block(a: &SBlock, b: &SBlock) -> bool {
    a.data == b.data
        && a.next_key == b.next_key
        && a.signature.to_bytes() == b.signature.to_bytes()
        && a.version == b.version
        && match (&a.external_signature, &b.external_signature) {
            (None, None) => true,
            (Some(x), Some(y)) => x.public_key == y.public_key && x.signature.to_bytes() == y.signature.to_bytes(),
            _ => false,
        }
}

fn append(n_blocks: usize, v_auth: u32, v_b1: u32, ext: bool, p256_next: bool, p256_secret: bool) {
    append_mode(n_blocks, v_auth, v_b1, ext, p256_next, p256_secret, 0)
}
/// mode 0: everything; 1: only what was signed; 2: only what the new container holds
fn append_mode(n_blocks: usize, v_auth: u32, v_b1: u32, ext: bool, p256_next: bool, p256_secret: bool, mode: u8) {
    let t = base(n_blocks, v_auth, v_b1, false, p256_secret);
    let next = any_keypair(p256_next);
    let data = any_bytes::<DATA_LEN>();
    let ext_sig = if ext {
        Some(Ext { public_key: any_public(false), signature: crypto::Signature::from_vec(any_bytes::<SIG_LEN>()) })
    } else {
        None
    };
    oracle::switch_on();
    let signer_public = match &t.proof {
        TokenNext::Secret(p) => p.public(),
        TokenNext::Seal(_) => unreachable!(),
    };
    let r = t.append_serialized(&next, data.clone(), ext_sig.clone());
    let ok = r.is_ok();
    kani::cover!(ok, "witness: the block was appended");
    assert!(ok, "appending to an unsealed container fails");
    if let Ok(r) = &r {
        // specification of the signature version (C16-K3 decides the function itself)
        let prev_v1 = v_auth == 1 || (n_blocks >= 1 && v_b1 == 1);
        let v = if ext || p256_next || p256_secret || prev_v1 { 1 } else { 0 };
        assert!(r.blocks.len() == n_blocks + 1, "append does not add exactly one block");
        let newb = &r.blocks[n_blocks];
        if mode != 2 {
        assert!(newb.version == v, "stored signature version differs from the one the history demands");
        assert!(newb.data == data && newb.next_key == next.public(), "new block does not carry the given payload / next key");
        assert!(ext == newb.external_signature.is_some(), "external signature lost or invented");
        // exactly one message was signed: the specified layout over the previous block's signature
        assert!(oracle::n_sign() == 1, "append signs more or less than one message");
        let q = oracle::sign_query(0);
        let prev_sig = if n_blocks >= 1 { t.blocks[n_blocks - 1].signature.to_bytes() } else { t.authority.signature.to_bytes() };
        // the specified payload, built from the INPUTS of the call (not from what the call stored)
        let expect_new = SBlock {
            data: data.clone(),
            next_key: next.public(),
            signature: crypto::Signature::from_vec(Vec::new()),
            external_signature: ext_sig.clone(),
            version: v,
        };
        let expected = spec_block_payload(&expect_new, Some(prev_sig));
        std::mem::forget(expect_new);
        assert!(q.msg == expected, "the signed message is not the specified payload (version, payload, algorithm, next key, previous signature, external signature)");
        assert!(q.key == signer_public, "the block is not signed by the key pair of the proof secret");
        assert!(newb.signature.to_bytes() == &q.sig[..], "the stored signature is not the one the primitive returned");
        }
        if mode != 1 {
        // earlier material is carried over bit for bit (revocation identifiers are stable)
        assert!(same_block(&r.authority, &t.authority), "authority block changed by append");
        if n_blocks >= 1 {
            assert!(same_block(&r.blocks[0], &t.blocks[0]), "earlier block changed by append");
        }
        if n_blocks == 2 {
            assert!(same_block(&r.blocks[1], &t.blocks[1]), "earlier block changed by append");
        }
        assert!(r.root_key_id == t.root_key_id, "root key id changed by append");
        // the new proof is the secret of the new next key
        match &r.proof {
            TokenNext::Secret(p) => assert!(p.public() == next.public() || p256_next, "proof secret is not the new key pair's"),
            TokenNext::Seal(_) => assert!(false, "append produced a sealed token"),
        }
        }
    }
    std::mem::forget(r);
    std::mem::forget(t);
    std::mem::forget(next);
    std::mem::forget(ext_sig);
}

fn seal(n_blocks: usize, v_auth: u32, v_b1: u32, p256_secret: bool) {
    let t = base(n_blocks, v_auth, v_b1, false, p256_secret);
    oracle::switch_on();
    let signer_public = match &t.proof {
        TokenNext::Secret(p) => p.public(),
        TokenNext::Seal(_) => unreachable!(),
    };
    let r = t.seal();
    let ok = r.is_ok();
    kani::cover!(ok, "witness: the token was sealed");
    assert!(ok, "sealing an unsealed container fails");
    if let Ok(r) = &r {
        assert!(oracle::n_sign() == 1, "seal signs more or less than one message");
        let q = oracle::sign_query(0);
        let last = if n_blocks == 1 { &t.blocks[0] } else { &t.authority };
        assert!(q.msg == spec_seal_payload(last), "the seal does not cover the last block's payload, next key and signature");
        assert!(q.key == signer_public, "the seal is not made with the proof secret");
        match &r.proof {
            TokenNext::Seal(s) => assert!(s.to_bytes() == &q.sig[..], "stored final signature is not the one the primitive returned"),
            TokenNext::Secret(_) => assert!(false, "seal left the token unsealed"),
        }
        assert!(r.blocks.len() == n_blocks && same_block(&r.authority, &t.authority), "seal changed the blocks");
        if n_blocks == 1 {
            assert!(same_block(&r.blocks[0], &t.blocks[0]), "seal changed a block");
        }
        assert!(r.root_key_id == t.root_key_id, "seal changed the root key id");
    }
    std::mem::forget(r);
    std::mem::forget(t);
}

/// seal when the last block is a third-party block: the seal payload is still
/// data ++ algorithm ++ next key ++ signature (the external signature is NOT part of it)
fn seal_after_third_party() {
    let authority = any_block(0, false, false);
    let blocks = vec![any_block(1, true, false)];
    let t = SerializedBiscuit { root_key_id: kani::any(), authority, blocks, proof: TokenNext::Secret(any_private(false)) };
    oracle::switch_on();
    let signer_public = match &t.proof {
        TokenNext::Secret(p) => p.public(),
        TokenNext::Seal(_) => unreachable!(),
    };
    let r = t.seal();
    let ok = r.is_ok();
    kani::cover!(ok, "witness: the token was sealed");
    assert!(ok, "sealing an unsealed container fails");
    if let Ok(r) = &r {
        assert!(oracle::n_sign() == 1, "seal signs more or less than one message");
        let q = oracle::sign_query(0);
        assert!(q.msg == spec_seal_payload(&t.blocks[0]), "the seal does not cover exactly the last block's payload, next key and signature");
        assert!(q.key == signer_public, "the seal is not made with the proof secret");
        assert!(r.blocks.len() == 1 && same_block(&r.authority, &t.authority) && same_block(&r.blocks[0], &t.blocks[0]), "seal changed the blocks");
    }
    std::mem::forget(r);
    std::mem::forget(t);
}

fn sealed_refuses(n_blocks: usize) {
    let t = base(n_blocks, 1, 1, true, false);
    let next = any_keypair(false);
    oracle::switch_on();
    let sel: u8 = kani::any();
    let refused = match sel {
        0 => matches!(t.append_serialized(&next, any_bytes::<DATA_LEN>(), None), Err(error::Token::AlreadySealed)),
        1 => matches!(t.seal(), Err(error::Token::AlreadySealed)),
        2 => matches!(crate::token::third_party::ThirdPartyRequest::from_container(&t), Err(error::Token::AppendOnSealed)),
        3 => matches!(t.proof.keypair(), Err(error::Token::AlreadySealed)),
        _ => t.proof.is_sealed(),
    };
    kani::cover!(refused, "witness: a sealed token refused the operation");
    assert!(refused, "a sealed token accepts an extension");
    assert!(oracle::n_sign() == 0, "something was signed for a sealed token");
    std::mem::forget(t);
    std::mem::forget(next);
}

fn third_party_request(n_blocks: usize) {
    let t = base(n_blocks, kani::any::<bool>() as u32, 1, false, false);
    let r = crate::token::third_party::ThirdPartyRequest::from_container(&t);
    let last = if n_blocks == 1 { &t.blocks[0] } else { &t.authority };
    let ok = matches!(&r, Ok(req) if req.previous_signature == last.signature.to_bytes());
    kani::cover!(ok, "witness: request carries the last signature");
    assert!(ok, "a third-party request does not carry exactly the last block's signature");
    std::mem::forget(r);
    std::mem::forget(t);
}

macro_rules! h {
    ($name:ident, $body:expr) => {
        #[kani::proof]
        #[kani::stub(alloc::fmt::format, crate::kh_support::fmt_format_stub)]
        #[kani::stub(zeroize::optimization_barrier, crate::kh_support::barrier_stub)]
        #[kani::unwind(34)]
        fn $name() {
            $body
        }
    };
}
// Appending to an authority-only container is not covered: inside append_serialized the clone of
// the empty block list followed by push trips a CBMC pointer check (a Vec with capacity 1 and a
// dangling pointer appears in the trace) that does not occur when the same statements run
// outside the function, nor natively - a tool artefact, see DESIGN.md.
h!(c02_append_after_block_v0_v0, append(1, 0, 0, false, false, false));
h!(c02_append_after_block_v0_v1, append(1, 0, 1, false, false, false));
h!(c02_append_after_block_v1_v0, append(1, 1, 0, false, false, false));
h!(c02_append_third_party_after_block, append(1, 0, 0, true, false, false));
h!(c02_append_p256_secret, append(1, 0, 0, false, false, true));
h!(c02_seal_after_block, seal(1, 0, 1, false));
h!(c02_seal_after_third_party_block, seal_after_third_party());
h!(c08_sealed_refuses_authority_only, sealed_refuses(0));
h!(c08_sealed_refuses_with_block, sealed_refuses(1));
h!(c07_request_authority_only, third_party_request(0));
h!(c07_request_after_block, third_party_request(1));

h!(c02_append_p256_next_after_block, append(1, 0, 0, false, true, false));
h!(c02_append_after_two_blocks_v1, append(2, 0, 1, false, false, false));

/// C02-K2 for the first block: `SerializedBiscuit::new_inner` on an empty Datalog block signs
/// the specified authority payload (v0 or v1) over the block's protobuf bytes with the root key
/// pair, stores that signature and version, and keeps the next key pair's secret as proof.
fn new_token(version: u32, p256_root: bool, p256_next: bool) {
    let root = any_keypair(p256_root);
    let next = any_keypair(p256_next);
    let block = crate::token::Block {
        symbols: crate::datalog::SymbolTable::new(),
        facts: Vec::new(),
        rules: Vec::new(),
        checks: Vec::new(),
        context: None,
        version: 3,
        external_key: None,
        public_keys: crate::token::public_keys::PublicKeys::new(),
        scopes: Vec::new(),
    };
    oracle::switch_on();
    let r = SerializedBiscuit::new_inner(kani::any(), &root, &next, &block, version);
    let ok = r.is_ok();
    kani::cover!(ok, "witness-any: token created");
    kani::cover!(!ok, "witness-any: unknown signature version refused");
    assert!(ok == (version <= 1), "token creation accepts an unknown signature version or refuses a known one");
    if let Ok(t) = &r {
        assert!(oracle::n_sign() == 1, "creation signs more or less than one message");
        let q = oracle::sign_query(0);
        assert!(q.key == root.public(), "the authority block is not signed by the root key pair");
        let expect = SBlock { data: t.authority.data.clone(), next_key: next.public(), signature: crypto::Signature::from_vec(Vec::new()), external_signature: None, version };
        let expected = spec_block_payload(&expect, None);
        std::mem::forget(expect);
        assert!(q.msg == expected, "the signed message is not the specified authority payload");
        assert!(t.authority.signature.to_bytes() == &q.sig[..] && t.authority.version == version && t.authority.next_key == next.public(), "stored signature / version / next key differ from what was signed");
        assert!(t.blocks.is_empty() && t.authority.external_signature.is_none());
        assert!(matches!(&t.proof, TokenNext::Secret(_)), "a fresh token is not extensible");
    }
    std::mem::forget(r);
    std::mem::forget(root);
    std::mem::forget(next);
    std::mem::forget(block);
}
h!(c02_new_token_v0, new_token(0, false, false));
h!(c02_new_token_v1, new_token(1, false, false));
h!(c02_new_token_v1_p256_next, new_token(1, false, true));
h!(c02_new_token_v2_refused, new_token(2, false, false));

/// `append` (Datalog block -> protobuf -> signature): the declared Datalog version of the new
/// block takes part in the choice of the signature scheme (3.3 content forces version 1).
/// The block is empty, so its protobuf encoding is the two bytes [0x18, version] (field 3, varint).
fn append_datalog_block_at(v_auth: u32, v_b1: u32, dl_version: u32) {
    let t = base(1, v_auth, v_b1, false, false);
    let next = any_keypair(false);
    let block = crate::token::Block {
        symbols: crate::datalog::SymbolTable::new(),
        facts: Vec::new(),
        rules: Vec::new(),
        checks: Vec::new(),
        context: None,
        version: dl_version,
        external_key: None,
        public_keys: crate::token::public_keys::PublicKeys::new(),
        scopes: Vec::new(),
    };
    oracle::switch_on();
    let r = t.append(&next, &block, None);
    let ok = r.is_ok();
    kani::cover!(ok, "witness: the block was appended");
    assert!(ok, "appending a Datalog block to an unsealed container fails");
    if let Ok(r) = &r {
        let v = if dl_version >= 6 || v_auth == 1 || v_b1 == 1 { 1 } else { 0 };
        assert!(r.blocks.len() == 2 && r.blocks[1].version == v, "signature version ignores the block's Datalog version or the history");
        assert!(oracle::n_sign() == 1, "append signs more or less than one message");
        let q = oracle::sign_query(0);
        let expect_new = SBlock { data: vec![0x18, dl_version as u8], next_key: next.public(), signature: crypto::Signature::from_vec(Vec::new()), external_signature: None, version: v };
        let expected = spec_block_payload(&expect_new, Some(t.blocks[0].signature.to_bytes()));
        std::mem::forget(expect_new);
        assert!(q.msg == expected, "the signed message is not the specified payload over the block's protobuf bytes");
    }
    std::mem::forget(r);
    std::mem::forget(t);
    std::mem::forget(next);
    std::mem::forget(block);
}
fn append_datalog_block(v_auth: u32, v_b1: u32) {
    let sel: u8 = kani::any();
    match sel {
        0 => append_datalog_block_at(v_auth, v_b1, 3),
        1 => append_datalog_block_at(v_auth, v_b1, 5),
        2 => append_datalog_block_at(v_auth, v_b1, 6),
        _ => {}
    }
}
h!(c02_append_datalog_block_v0_v0, append_datalog_block(0, 0));
h!(c02_append_datalog_block_v0_v1, append_datalog_block(0, 1));
// the authority block's signature version is part of the history ("never switch back"): seeded change C16-r4m1
h!(c02_append_datalog_block_v1_v0, append_datalog_block(1, 0));

/// `SerializedBiscuit::new`: the signature version of the first block follows the ROOT key's
/// algorithm, the next key's algorithm and the block's Datalog version
fn new_via_public_entry(p256_root: bool, p256_next: bool, dl_version: u32) {
    let root = any_keypair(p256_root);
    let next = any_keypair(p256_next);
    let block = crate::token::Block {
        symbols: crate::datalog::SymbolTable::new(),
        facts: Vec::new(),
        rules: Vec::new(),
        checks: Vec::new(),
        context: None,
        version: dl_version,
        external_key: None,
        public_keys: crate::token::public_keys::PublicKeys::new(),
        scopes: Vec::new(),
    };
    oracle::switch_on();
    let r = SerializedBiscuit::new(kani::any(), &root, &next, &block);
    let expected = if p256_root || p256_next || dl_version >= 6 { 1 } else { 0 };
    let ok = matches!(&r, Ok(t) if t.authority.version == expected);
    kani::cover!(ok, "witness: token created with the expected signature version");
    assert!(ok, "the first block's signature version ignores the root key algorithm, the next key algorithm or the Datalog version");
    std::mem::forget(r);
    std::mem::forget(root);
    std::mem::forget(next);
    std::mem::forget(block);
}
h!(c02_new_signature_version, {
    let sel: u8 = kani::any();
    match sel {
        0 => new_via_public_entry(false, false, 3),
        1 => new_via_public_entry(true, false, 3),
        2 => new_via_public_entry(false, true, 3),
        3 => new_via_public_entry(false, false, 6),
        4 => new_via_public_entry(false, false, 5),
        _ => {}
    }
});

/// `to_proto`: the wire message carries exactly the container's fields (root key id - including
/// 0 -, payloads, next keys, signatures, external signatures; version omitted only when 0)
h!(c02_to_proto_fields, {
    let t = base(1, kani::any::<bool>() as u32, 1, kani::any(), false);
    let p = t.to_proto();
    assert!(p.root_key_id == t.root_key_id, "root key id altered or dropped on serialization");
    assert!(p.authority.block == t.authority.data && p.authority.signature == t.authority.signature.to_bytes(), "authority payload / signature altered");
    assert!(p.authority.version == if t.authority.version > 0 { Some(t.authority.version) } else { None }, "authority signature version altered");
    assert!(p.authority.external_signature.is_none());
    assert!(p.blocks.len() == 1 && p.blocks[0].block == t.blocks[0].data && p.blocks[0].signature == t.blocks[0].signature.to_bytes() && p.blocks[0].version == Some(1), "block altered on serialization");
    assert!(p.authority.next_key.key == t.authority.next_key.to_bytes() && p.authority.next_key.algorithm == 0, "next key altered on serialization");
    let proof_ok = match (&p.proof.content, &t.proof) {
        (Some(schema::proof::Content::FinalSignature(s)), TokenNext::Seal(x)) => &s[..] == x.to_bytes(),
        (Some(schema::proof::Content::NextSecret(s)), TokenNext::Secret(k)) => &s[..] == &k.to_bytes()[..],
        _ => false,
    };
    kani::cover!(proof_ok, "witness: proof serialized");
    assert!(proof_ok, "proof altered on serialization");
    std::mem::forget(p);
    std::mem::forget(t);
});
