//@ owner: biscuit-auth/src/datalog/expression.rs
//! C06-K1: operator table. One harness per (binary operator, left type); the right operand's
//! type is a solver-chosen value among the ten term types, payloads symbolic at full width.
//! Oracle: `spec_binary` below - an independent table written from the Biscuit specification,
//! it shares no code with `Binary::evaluate`.
use super::*;
use crate::datalog::{SymbolTable, TemporarySymbolTable};
use crate::vstd::{BTreeMap, BTreeSet};

/// type tags: 0 variable 1 integer 2 string 3 date 4 bytes 5 bool 6 set 7 null 8 array 9 map
#[derive(Clone, Copy)]
pub(crate) struct Val {
    pub ty: u8,
    /// integer / date / string index / bool (0|1) / the single element of a collection (an integer)
    pub a: i64,
    /// second payload: map value; collections: 1 = one element, 0 = empty
    pub b: i64,
    pub n: u8,
}

pub(crate) fn any_val(ty: u8, n: u8) -> Val {
    let a: i64 = kani::any();
    let b: i64 = kani::any();
    let mut v = Val { ty, a, b, n };
    match ty {
        0 => kani::assume(a >= 0 && a <= u32::MAX as i64),
        2 => kani::assume(a >= 0),
        5 => kani::assume(a == 0 || a == 1),
        7 => {}
        _ => {}
    }
    if !(ty == 4 || ty == 6 || ty == 8 || ty == 9) {
        v.n = 0;
    }
    v
}

pub(crate) fn mk(v: &Val) -> Term {
    match v.ty {
        0 => Term::Variable(v.a as u32),
        1 => Term::Integer(v.a),
        2 => Term::Str(v.a as u64),
        3 => Term::Date(v.a as u64),
        4 => {
            if v.n == 1 {
                Term::Bytes(vec![v.a as u8])
            } else {
                Term::Bytes(Vec::new())
            }
        }
        5 => Term::Bool(v.a == 1),
        6 => {
            let mut s = BTreeSet::new();
            if v.n == 1 {
                s.insert(Term::Integer(v.a));
            }
            Term::Set(s)
        }
        7 => Term::Null,
        8 => {
            if v.n == 1 {
                Term::Array(vec![Term::Integer(v.a)])
            } else {
                Term::Array(Vec::new())
            }
        }
        _ => {
            let mut m = BTreeMap::new();
            if v.n == 1 {
                m.insert(MapKey::Integer(v.a), Term::Integer(v.b));
            }
            Term::Map(m)
        }
    }
}

#[derive(Clone, Copy, PartialEq)]
pub(crate) enum Spec {
    Bool(bool),
    Int(i64),
    Null,
    /// a set/array holding exactly these integers (0 or 1 of them)
    SetOf(u8, i64),
    Overflow,
    DivZero,
    InvalidType,
    /// a set holding exactly these two distinct integers
    SetOf2(i64, i64),
    /// string operators: decided by the c06_str_* harnesses over a concrete string table; here
    /// (symbolic, mostly unknown indices) only "Ok(Bool|Str) or UnknownSymbol" is required
    StringOp,
    /// integer multiplication / division: value decided by c06_mul_* / c06_div_* harnesses
    Arith,
    /// extern call with no function registered: UnknownSymbol or UndefinedExtern
    NoExtern,
}

fn same_payload(l: &Val, r: &Val) -> bool {
    // structural equality of two values of the SAME type built by mk()
    match l.ty {
        7 => true,
        4 | 6 | 8 => l.n == r.n && (l.n == 0 || if l.ty == 4 { l.a as u8 == r.a as u8 } else { l.a == r.a }),
        9 => l.n == r.n && (l.n == 0 || (l.a == r.a && l.b == r.b)),
        0 => l.a as u32 == r.a as u32,
        _ => l.a == r.a,
    }
}

/// op codes follow the declaration order of `Binary`
pub(crate) fn spec_binary(op: u8, l: &Val, r: &Val) -> Spec {
    use Spec::*;
    let same = l.ty == r.ty;
    let (lt, rt) = (l.ty, r.ty);
    // strict and heterogeneous (in)equality
    let strict_eq = op == 4;
    let strict_ne = op == 20;
    let het_eq = op == 21;
    let het_ne = op == 22;
    if het_eq || het_ne {
        if lt == 0 || rt == 0 {
            // variables are never equal to anything at evaluation time
            return Bool(het_ne);
        }
        let eq = same && same_payload(l, r);
        return Bool(if het_eq { eq } else { !eq });
    }
    if strict_eq || strict_ne {
        if !same || lt == 0 {
            return InvalidType;
        }
        let eq = same_payload(l, r);
        return Bool(if strict_eq { eq } else { !eq });
    }
    if op == 28 {
        return NoExtern;
    }
    // LazyAnd, LazyOr, All, Any need a closure on the right
    if op >= 23 && op <= 26 {
        return InvalidType;
    }
    match (op, lt, rt) {
        // integers
        (0, 1, 1) => Bool(l.a < r.a),
        (1, 1, 1) => Bool(l.a > r.a),
        (2, 1, 1) => Bool(l.a <= r.a),
        (3, 1, 1) => Bool(l.a >= r.a),
        (9, 1, 1) => {
            let w = l.a as i128 + r.a as i128;
            if w > i64::MAX as i128 || w < i64::MIN as i128 { Overflow } else { Int(w as i64) }
        }
        (10, 1, 1) => {
            let w = l.a as i128 - r.a as i128;
            if w > i64::MAX as i128 || w < i64::MIN as i128 { Overflow } else { Int(w as i64) }
        }
        (11, 1, 1) | (12, 1, 1) => Arith,
        (17, 1, 1) => Int(l.a & r.a),
        (18, 1, 1) => Int(l.a | r.a),
        (19, 1, 1) => Int(l.a ^ r.a),
        // dates
        (0, 3, 3) => Bool((l.a as u64) < (r.a as u64)),
        (1, 3, 3) => Bool((l.a as u64) > (r.a as u64)),
        (2, 3, 3) => Bool((l.a as u64) <= (r.a as u64)),
        (3, 3, 3) => Bool((l.a as u64) >= (r.a as u64)),
        // strings
        (5, 2, 2) | (6, 2, 2) | (7, 2, 2) | (8, 2, 2) | (9, 2, 2) => StringOp,
        // booleans
        (13, 5, 5) => Bool(l.a == 1 && r.a == 1),
        (14, 5, 5) => Bool(l.a == 1 || r.a == 1),
        // sets (elements are integers here)
        (15, 6, 6) => if l.n == 1 && r.n == 1 && l.a == r.a { SetOf(1, l.a) } else { SetOf(0, 0) },
        (16, 6, 6) => {
            if l.n == 1 && r.n == 1 && l.a != r.a { SetOf2(l.a, r.a) }
            else if l.n == 1 { SetOf(1, l.a) } else if r.n == 1 { SetOf(1, r.a) } else { SetOf(0, 0) }
        }
        (5, 6, 6) => Bool(r.n == 0 || (l.n == 1 && l.a == r.a)),
        (5, 6, 1) => Bool(l.n == 1 && l.a == r.a),
        (5, 6, 3) | (5, 6, 5) | (5, 6, 2) | (5, 6, 4) => Bool(false),
        // arrays
        (5, 8, _) => Bool(l.n == 1 && rt == 1 && l.a == r.a),
        (6, 8, 8) | (7, 8, 8) => Bool(r.n == 0 || (l.n == 1 && l.a == r.a)),
        (27, 8, 1) => if l.n == 1 && r.a == 0 { Int(l.a) } else { Null },
        // maps
        (5, 9, _) => Bool(l.n == 1 && rt == 1 && l.a == r.a),
        (27, 9, 1) => if l.n == 1 && l.a == r.a { Int(l.b) } else { Null },
        (27, 9, 2) => Null,
        _ => InvalidType,
    }
}

pub(crate) fn op_of(code: u8) -> Binary {
    match code {
        0 => Binary::LessThan,
        1 => Binary::GreaterThan,
        2 => Binary::LessOrEqual,
        3 => Binary::GreaterOrEqual,
        4 => Binary::Equal,
        5 => Binary::Contains,
        6 => Binary::Prefix,
        7 => Binary::Suffix,
        8 => Binary::Regex,
        9 => Binary::Add,
        10 => Binary::Sub,
        11 => Binary::Mul,
        12 => Binary::Div,
        13 => Binary::And,
        14 => Binary::Or,
        15 => Binary::Intersection,
        16 => Binary::Union,
        17 => Binary::BitwiseAnd,
        18 => Binary::BitwiseOr,
        19 => Binary::BitwiseXor,
        20 => Binary::NotEqual,
        21 => Binary::HeterogeneousEqual,
        22 => Binary::HeterogeneousNotEqual,
        23 => Binary::LazyAnd,
        24 => Binary::LazyOr,
        25 => Binary::All,
        26 => Binary::Any,
        27 => Binary::Get,
        // the name of the extern function is the default symbol 0 ("read"): known symbol, no such
        // function registered (an unknown symbol index is run in c06_ffi_unknown_symbol)
        _ => Binary::Ffi(0),
    }
}

/// does the implementation's answer agree with the table entry?
pub(crate) fn agrees(res: &Result<Term, error::Expression>, spec: Spec) -> bool {
    match (spec, res) {
        (Spec::Bool(b), Ok(Term::Bool(x))) => *x == b,
        (Spec::Int(i), Ok(Term::Integer(x))) => *x == i,
        (Spec::Null, Ok(Term::Null)) => true,
        (Spec::SetOf(n, e), Ok(Term::Set(s))) => {
            s.len() == n as usize && (n == 0 || s.contains(&Term::Integer(e)))
        }
        (Spec::Overflow, Err(error::Expression::Overflow)) => true,
        (Spec::DivZero, Err(error::Expression::DivideByZero)) => true,
        (Spec::InvalidType, Err(error::Expression::InvalidType)) => true,
        (Spec::SetOf2(a, b), Ok(Term::Set(s))) => {
            s.len() == 2 && s.contains(&Term::Integer(a)) && s.contains(&Term::Integer(b))
        }
        (Spec::StringOp, Ok(Term::Bool(_))) | (Spec::StringOp, Ok(Term::Str(_))) => true,
        (Spec::Arith, Ok(Term::Integer(_))) | (Spec::Arith, Err(error::Expression::Overflow)) | (Spec::Arith, Err(error::Expression::DivideByZero)) => true,
        (Spec::StringOp, Err(error::Expression::UnknownSymbol(_))) => true,
        (Spec::NoExtern, Err(error::Expression::UndefinedExtern(_))) => true,
        _ => false,
    }
}

/// one cell of the table on explicit operand descriptions
#[inline(never)]
pub(crate) fn run_vals(op: u8, l: Val, r: Val) {
    let symbols = SymbolTable::new();
    let mut tmp = TemporarySymbolTable::new(&symbols);
    let ext = HashMap::new();
    let spec = spec_binary(op, &l, &r);
    let res = op_of(op).evaluate(mk(&l), mk(&r), &mut tmp, &ext);
    let ok = agrees(&res, spec);
    kani::cover!(res.is_ok(), "witness-any: some cell returns a value");
    kani::cover!(res.is_err(), "witness-any: some cell returns an error");
    std::mem::forget(res);
    std::mem::forget(tmp);
    std::mem::forget(ext);
    assert!(ok, "Binary::evaluate disagrees with the specification table");
}

pub(crate) fn run_cell_n(op: u8, lt: u8, ln: u8, rt: u8, rn: u8) {
    run_vals(op, any_val(lt, ln), any_val(rt, rn));
}

/// Cells in which a *symbolic comparison* would decide which heap element is then cloned or
/// compared (element lookup by key/index, sorted merge of two sets). Symbolic execution
/// cannot keep the element's variant constant across such a merge, so these cells are split
/// into variants whose comparisons fold: same symbolic payload on both sides, and distinct
/// concrete payloads. (DESIGN 4/C06 "Out": symbolic keys that differ.)
fn run_lookup_cell(op: u8, lt: u8, rt: u8) {
    let sel: u8 = kani::any();
    let mut l = any_val(lt, 1);
    let mut r = any_val(rt, if rt == 1 { 0 } else { 1 });
    match sel {
        0 => {
            // equal keys / in-range index, concrete; values stay symbolic
            l.a = 7;
            r.a = if lt == 8 && rt == 1 { 0 } else { 7 };
            run_vals(op, l, r)
        }
        1 => {
            l.a = 7;
            r.a = if lt == 8 && rt == 1 { 1 } else { 9 };
            run_vals(op, l, r)
        }
        2 => {
            l.a = 7;
            r.a = -1;
            run_vals(op, l, r)
        }
        3 => {
            l.a = i64::MIN;
            r.a = i64::MAX;
            run_vals(op, l, r)
        }
        _ => {}
    }
}

/// all right-hand shapes for one (operator, left shape): the shape is chosen by the solver,
/// each shape runs in its own branch with concrete type tags and lengths.
pub(crate) fn run_row(op: u8, lt: u8, ln: u8) {
    let sel: u8 = kani::any();
    let get = op == 27;
    let setop = op == 15 || op == 16;
    let strop = lt == 2 && (op == 5 || op == 6 || op == 7 || op == 8 || op == 9);
    match sel {
        0 => run_cell_n(op, lt, ln, 0, 0),
        1 => {
            if get && ln == 1 && (lt == 8 || lt == 9) {
                run_lookup_cell(op, lt, 1)
            } else {
                run_cell_n(op, lt, ln, 1, 0)
            }
        }
        2 => {
            if strop {
                // string operators: decided by the c06_str_* harnesses over a concrete string
                // table (a symbolic symbol index would be a symbolic pointer into the table)
            } else {
                run_cell_n(op, lt, ln, 2, 0)
            }
        }
        3 => run_cell_n(op, lt, ln, 3, 0),
        4 => run_cell_n(op, lt, ln, 4, 0),
        5 => run_cell_n(op, lt, ln, 4, 1),
        6 => run_cell_n(op, lt, ln, 5, 0),
        7 => run_cell_n(op, lt, ln, 6, 0),
        8 => {
            if setop && lt == 6 && ln == 1 {
                // union / intersection of two non-empty sets: not run (the merge of two heap
                // vectors under symbolic - and even concrete - comparisons does not finish)
            } else {
                run_cell_n(op, lt, ln, 6, 1)
            }
        }
        9 => run_cell_n(op, lt, ln, 7, 0),
        10 => run_cell_n(op, lt, ln, 8, 0),
        11 => run_cell_n(op, lt, ln, 8, 1),
        12 => run_cell_n(op, lt, ln, 9, 0),
        13 => run_cell_n(op, lt, ln, 9, 1),
        _ => {}
    }
}

macro_rules! row {
    ($name:ident, $op:expr, $lt:expr, $ln:expr) => {
        #[kani::proof]
        #[kani::stub(regex::Regex::new, crate::kh_support::regex_new_stub)]
        #[kani::stub(regex::Regex::is_match, crate::kh_support::regex_is_match_stub)]
        #[kani::unwind(3)]
        fn $name() {
            run_row($op, $lt, $ln);
        }
    };
}

/// the 14 left-hand shapes of one operator
macro_rules! op_rows {
    ($op:expr, $v:ident, $i:ident, $s:ident, $d:ident, $y0:ident, $y1:ident, $b:ident, $e0:ident, $e1:ident, $n:ident, $a0:ident, $a1:ident, $m0:ident, $m1:ident) => {
        row!($v, $op, 0, 0);
        row!($i, $op, 1, 0);
        row!($s, $op, 2, 0);
        row!($d, $op, 3, 0);
        row!($y0, $op, 4, 0);
        row!($y1, $op, 4, 1);
        row!($b, $op, 5, 0);
        row!($e0, $op, 6, 0);
        row!($e1, $op, 6, 1);
        row!($n, $op, 7, 0);
        row!($a0, $op, 8, 0);
        row!($a1, $op, 8, 1);
        row!($m0, $op, 9, 0);
        row!($m1, $op, 9, 1);
    };
}
op_rows!(0, c06_bin_lt_var, c06_bin_lt_int, c06_bin_lt_str, c06_bin_lt_date, c06_bin_lt_bytes0, c06_bin_lt_bytes1, c06_bin_lt_bool, c06_bin_lt_set0, c06_bin_lt_set1, c06_bin_lt_null, c06_bin_lt_arr0, c06_bin_lt_arr1, c06_bin_lt_map0, c06_bin_lt_map1);
op_rows!(1, c06_bin_gt_var, c06_bin_gt_int, c06_bin_gt_str, c06_bin_gt_date, c06_bin_gt_bytes0, c06_bin_gt_bytes1, c06_bin_gt_bool, c06_bin_gt_set0, c06_bin_gt_set1, c06_bin_gt_null, c06_bin_gt_arr0, c06_bin_gt_arr1, c06_bin_gt_map0, c06_bin_gt_map1);
op_rows!(2, c06_bin_le_var, c06_bin_le_int, c06_bin_le_str, c06_bin_le_date, c06_bin_le_bytes0, c06_bin_le_bytes1, c06_bin_le_bool, c06_bin_le_set0, c06_bin_le_set1, c06_bin_le_null, c06_bin_le_arr0, c06_bin_le_arr1, c06_bin_le_map0, c06_bin_le_map1);
op_rows!(3, c06_bin_ge_var, c06_bin_ge_int, c06_bin_ge_str, c06_bin_ge_date, c06_bin_ge_bytes0, c06_bin_ge_bytes1, c06_bin_ge_bool, c06_bin_ge_set0, c06_bin_ge_set1, c06_bin_ge_null, c06_bin_ge_arr0, c06_bin_ge_arr1, c06_bin_ge_map0, c06_bin_ge_map1);
op_rows!(4, c06_bin_eq_var, c06_bin_eq_int, c06_bin_eq_str, c06_bin_eq_date, c06_bin_eq_bytes0, c06_bin_eq_bytes1, c06_bin_eq_bool, c06_bin_eq_set0, c06_bin_eq_set1, c06_bin_eq_null, c06_bin_eq_arr0, c06_bin_eq_arr1, c06_bin_eq_map0, c06_bin_eq_map1);
op_rows!(5, c06_bin_contains_var, c06_bin_contains_int, c06_bin_contains_str, c06_bin_contains_date, c06_bin_contains_bytes0, c06_bin_contains_bytes1, c06_bin_contains_bool, c06_bin_contains_set0, c06_bin_contains_set1, c06_bin_contains_null, c06_bin_contains_arr0, c06_bin_contains_arr1, c06_bin_contains_map0, c06_bin_contains_map1);
op_rows!(6, c06_bin_prefix_var, c06_bin_prefix_int, c06_bin_prefix_str, c06_bin_prefix_date, c06_bin_prefix_bytes0, c06_bin_prefix_bytes1, c06_bin_prefix_bool, c06_bin_prefix_set0, c06_bin_prefix_set1, c06_bin_prefix_null, c06_bin_prefix_arr0, c06_bin_prefix_arr1, c06_bin_prefix_map0, c06_bin_prefix_map1);
op_rows!(7, c06_bin_suffix_var, c06_bin_suffix_int, c06_bin_suffix_str, c06_bin_suffix_date, c06_bin_suffix_bytes0, c06_bin_suffix_bytes1, c06_bin_suffix_bool, c06_bin_suffix_set0, c06_bin_suffix_set1, c06_bin_suffix_null, c06_bin_suffix_arr0, c06_bin_suffix_arr1, c06_bin_suffix_map0, c06_bin_suffix_map1);
op_rows!(8, c06_bin_regex_var, c06_bin_regex_int, c06_bin_regex_str, c06_bin_regex_date, c06_bin_regex_bytes0, c06_bin_regex_bytes1, c06_bin_regex_bool, c06_bin_regex_set0, c06_bin_regex_set1, c06_bin_regex_null, c06_bin_regex_arr0, c06_bin_regex_arr1, c06_bin_regex_map0, c06_bin_regex_map1);
op_rows!(9, c06_bin_add_var, c06_bin_add_int, c06_bin_add_str, c06_bin_add_date, c06_bin_add_bytes0, c06_bin_add_bytes1, c06_bin_add_bool, c06_bin_add_set0, c06_bin_add_set1, c06_bin_add_null, c06_bin_add_arr0, c06_bin_add_arr1, c06_bin_add_map0, c06_bin_add_map1);
op_rows!(10, c06_bin_sub_var, c06_bin_sub_int, c06_bin_sub_str, c06_bin_sub_date, c06_bin_sub_bytes0, c06_bin_sub_bytes1, c06_bin_sub_bool, c06_bin_sub_set0, c06_bin_sub_set1, c06_bin_sub_null, c06_bin_sub_arr0, c06_bin_sub_arr1, c06_bin_sub_map0, c06_bin_sub_map1);
op_rows!(11, c06_bin_mul_var, c06_bin_mul_int, c06_bin_mul_str, c06_bin_mul_date, c06_bin_mul_bytes0, c06_bin_mul_bytes1, c06_bin_mul_bool, c06_bin_mul_set0, c06_bin_mul_set1, c06_bin_mul_null, c06_bin_mul_arr0, c06_bin_mul_arr1, c06_bin_mul_map0, c06_bin_mul_map1);
op_rows!(12, c06_bin_div_var, c06_bin_div_int, c06_bin_div_str, c06_bin_div_date, c06_bin_div_bytes0, c06_bin_div_bytes1, c06_bin_div_bool, c06_bin_div_set0, c06_bin_div_set1, c06_bin_div_null, c06_bin_div_arr0, c06_bin_div_arr1, c06_bin_div_map0, c06_bin_div_map1);
op_rows!(13, c06_bin_and_var, c06_bin_and_int, c06_bin_and_str, c06_bin_and_date, c06_bin_and_bytes0, c06_bin_and_bytes1, c06_bin_and_bool, c06_bin_and_set0, c06_bin_and_set1, c06_bin_and_null, c06_bin_and_arr0, c06_bin_and_arr1, c06_bin_and_map0, c06_bin_and_map1);
op_rows!(14, c06_bin_or_var, c06_bin_or_int, c06_bin_or_str, c06_bin_or_date, c06_bin_or_bytes0, c06_bin_or_bytes1, c06_bin_or_bool, c06_bin_or_set0, c06_bin_or_set1, c06_bin_or_null, c06_bin_or_arr0, c06_bin_or_arr1, c06_bin_or_map0, c06_bin_or_map1);
op_rows!(15, c06_bin_intersection_var, c06_bin_intersection_int, c06_bin_intersection_str, c06_bin_intersection_date, c06_bin_intersection_bytes0, c06_bin_intersection_bytes1, c06_bin_intersection_bool, c06_bin_intersection_set0, c06_bin_intersection_set1, c06_bin_intersection_null, c06_bin_intersection_arr0, c06_bin_intersection_arr1, c06_bin_intersection_map0, c06_bin_intersection_map1);
op_rows!(16, c06_bin_union_var, c06_bin_union_int, c06_bin_union_str, c06_bin_union_date, c06_bin_union_bytes0, c06_bin_union_bytes1, c06_bin_union_bool, c06_bin_union_set0, c06_bin_union_set1, c06_bin_union_null, c06_bin_union_arr0, c06_bin_union_arr1, c06_bin_union_map0, c06_bin_union_map1);
op_rows!(17, c06_bin_bitand_var, c06_bin_bitand_int, c06_bin_bitand_str, c06_bin_bitand_date, c06_bin_bitand_bytes0, c06_bin_bitand_bytes1, c06_bin_bitand_bool, c06_bin_bitand_set0, c06_bin_bitand_set1, c06_bin_bitand_null, c06_bin_bitand_arr0, c06_bin_bitand_arr1, c06_bin_bitand_map0, c06_bin_bitand_map1);
op_rows!(18, c06_bin_bitor_var, c06_bin_bitor_int, c06_bin_bitor_str, c06_bin_bitor_date, c06_bin_bitor_bytes0, c06_bin_bitor_bytes1, c06_bin_bitor_bool, c06_bin_bitor_set0, c06_bin_bitor_set1, c06_bin_bitor_null, c06_bin_bitor_arr0, c06_bin_bitor_arr1, c06_bin_bitor_map0, c06_bin_bitor_map1);
op_rows!(19, c06_bin_bitxor_var, c06_bin_bitxor_int, c06_bin_bitxor_str, c06_bin_bitxor_date, c06_bin_bitxor_bytes0, c06_bin_bitxor_bytes1, c06_bin_bitxor_bool, c06_bin_bitxor_set0, c06_bin_bitxor_set1, c06_bin_bitxor_null, c06_bin_bitxor_arr0, c06_bin_bitxor_arr1, c06_bin_bitxor_map0, c06_bin_bitxor_map1);
op_rows!(20, c06_bin_ne_var, c06_bin_ne_int, c06_bin_ne_str, c06_bin_ne_date, c06_bin_ne_bytes0, c06_bin_ne_bytes1, c06_bin_ne_bool, c06_bin_ne_set0, c06_bin_ne_set1, c06_bin_ne_null, c06_bin_ne_arr0, c06_bin_ne_arr1, c06_bin_ne_map0, c06_bin_ne_map1);
op_rows!(21, c06_bin_heq_var, c06_bin_heq_int, c06_bin_heq_str, c06_bin_heq_date, c06_bin_heq_bytes0, c06_bin_heq_bytes1, c06_bin_heq_bool, c06_bin_heq_set0, c06_bin_heq_set1, c06_bin_heq_null, c06_bin_heq_arr0, c06_bin_heq_arr1, c06_bin_heq_map0, c06_bin_heq_map1);
op_rows!(22, c06_bin_hne_var, c06_bin_hne_int, c06_bin_hne_str, c06_bin_hne_date, c06_bin_hne_bytes0, c06_bin_hne_bytes1, c06_bin_hne_bool, c06_bin_hne_set0, c06_bin_hne_set1, c06_bin_hne_null, c06_bin_hne_arr0, c06_bin_hne_arr1, c06_bin_hne_map0, c06_bin_hne_map1);
op_rows!(23, c06_bin_lazyand_var, c06_bin_lazyand_int, c06_bin_lazyand_str, c06_bin_lazyand_date, c06_bin_lazyand_bytes0, c06_bin_lazyand_bytes1, c06_bin_lazyand_bool, c06_bin_lazyand_set0, c06_bin_lazyand_set1, c06_bin_lazyand_null, c06_bin_lazyand_arr0, c06_bin_lazyand_arr1, c06_bin_lazyand_map0, c06_bin_lazyand_map1);
op_rows!(24, c06_bin_lazyor_var, c06_bin_lazyor_int, c06_bin_lazyor_str, c06_bin_lazyor_date, c06_bin_lazyor_bytes0, c06_bin_lazyor_bytes1, c06_bin_lazyor_bool, c06_bin_lazyor_set0, c06_bin_lazyor_set1, c06_bin_lazyor_null, c06_bin_lazyor_arr0, c06_bin_lazyor_arr1, c06_bin_lazyor_map0, c06_bin_lazyor_map1);
op_rows!(25, c06_bin_all_var, c06_bin_all_int, c06_bin_all_str, c06_bin_all_date, c06_bin_all_bytes0, c06_bin_all_bytes1, c06_bin_all_bool, c06_bin_all_set0, c06_bin_all_set1, c06_bin_all_null, c06_bin_all_arr0, c06_bin_all_arr1, c06_bin_all_map0, c06_bin_all_map1);
op_rows!(26, c06_bin_any_var, c06_bin_any_int, c06_bin_any_str, c06_bin_any_date, c06_bin_any_bytes0, c06_bin_any_bytes1, c06_bin_any_bool, c06_bin_any_set0, c06_bin_any_set1, c06_bin_any_null, c06_bin_any_arr0, c06_bin_any_arr1, c06_bin_any_map0, c06_bin_any_map1);
op_rows!(27, c06_bin_get_var, c06_bin_get_int, c06_bin_get_str, c06_bin_get_date, c06_bin_get_bytes0, c06_bin_get_bytes1, c06_bin_get_bool, c06_bin_get_set0, c06_bin_get_set1, c06_bin_get_null, c06_bin_get_arr0, c06_bin_get_arr1, c06_bin_get_map0, c06_bin_get_map1);
op_rows!(28, c06_bin_ffi_var, c06_bin_ffi_int, c06_bin_ffi_str, c06_bin_ffi_date, c06_bin_ffi_bytes0, c06_bin_ffi_bytes1, c06_bin_ffi_bool, c06_bin_ffi_set0, c06_bin_ffi_set1, c06_bin_ffi_null, c06_bin_ffi_arr0, c06_bin_ffi_arr1, c06_bin_ffi_map0, c06_bin_ffi_map1);

// ---------------------------------------------------------------- unary operators
/// op codes: 0 negate, 1 parens, 2 length, 3 type, 4 extern call
fn unary_of(code: u8) -> Unary {
    match code {
        0 => Unary::Negate,
        1 => Unary::Parens,
        2 => Unary::Length,
        3 => Unary::TypeOf,
        _ => Unary::Ffi(0),
    }
}
const TYPE_NAMES: [&str; 10] = ["", "integer", "string", "date", "bytes", "bool", "set", "null", "array", "map"];

#[inline(never)]
fn run_unary(op: u8, ty: u8, n: u8) {
    let symbols = SymbolTable::new();
    let mut tmp = TemporarySymbolTable::new(&symbols);
    let ext = HashMap::new();
    let v = any_val(ty, n);
    if ty == 2 && op == 2 {
        // length of a string: only unknown symbols here (a symbolic index into the symbol
        // table would be a symbolic pointer); known strings are concrete in c06_str_*
        kani::assume(v.a >= 1024);
    }
    let res = unary_of(op).evaluate(mk(&v), &mut tmp, &ext);
    let ok = match op {
        0 => match (&res, ty) {
            (Ok(Term::Bool(b)), 5) => *b == (v.a != 1),
            (Err(error::Expression::InvalidType), t) => t != 5,
            _ => false,
        },
        1 => match &res {
            Ok(t) => *t == mk(&v),
            Err(_) => false,
        },
        2 => match (&res, ty) {
            (Ok(Term::Integer(l)), 4) | (Ok(Term::Integer(l)), 6) | (Ok(Term::Integer(l)), 8) | (Ok(Term::Integer(l)), 9) => *l == n as i64,
            (Err(error::Expression::UnknownSymbol(s)), 2) => *s == v.a as u64,
            (Err(error::Expression::InvalidType), t) => !(t == 2 || t == 4 || t == 6 || t == 8 || t == 9),
            _ => false,
        },
        3 => match (&res, ty) {
            (Err(error::Expression::InvalidType), 0) => true,
            (Ok(Term::Str(s)), t) if t != 0 => tmp.get_symbol(*s) == Some(TYPE_NAMES[t as usize]),
            _ => false,
        },
        _ => matches!(&res, Err(error::Expression::UndefinedExtern(_))),
    };
    kani::cover!(res.is_ok(), "witness-any: some cell returns a value");
    kani::cover!(res.is_err(), "witness-any: some cell returns an error");
    std::mem::forget(res);
    std::mem::forget(tmp);
    std::mem::forget(ext);
    assert!(ok, "Unary::evaluate disagrees with the specification table");
}

fn unary_row(op: u8) {
    let sel: u8 = kani::any();
    match sel {
        0 => run_unary(op, 0, 0),
        1 => run_unary(op, 1, 0),
        2 => run_unary(op, 2, 0),
        3 => run_unary(op, 3, 0),
        4 => run_unary(op, 4, 0),
        5 => run_unary(op, 4, 1),
        6 => run_unary(op, 5, 0),
        7 => run_unary(op, 6, 0),
        8 => run_unary(op, 6, 1),
        9 => run_unary(op, 7, 0),
        10 => run_unary(op, 8, 0),
        11 => run_unary(op, 8, 1),
        12 => run_unary(op, 9, 0),
        13 => run_unary(op, 9, 1),
        _ => {}
    }
}
macro_rules! urow {
    ($name:ident, $op:expr, $uw:expr) => {
        #[kani::proof]
        #[kani::stub(regex::Regex::new, crate::kh_support::regex_new_stub)]
        #[kani::stub(regex::Regex::is_match, crate::kh_support::regex_is_match_stub)]
        #[kani::unwind($uw)]
        fn $name() {
            unary_row($op);
        }
    };
}
urow!(c06_un_negate, 0, 3);
urow!(c06_un_parens, 1, 3);
urow!(c06_un_length, 2, 3);
urow!(c06_un_typeof, 3, 30);
urow!(c06_un_ffi, 4, 3);

// ---------------------------------------------------------------- multiplication / division values
/// multiplication: (a) both operands symbolic, 32 x 8 bits: exact product; (b) one operand at
/// full 64-bit width times each constant in -3..=3: exact product or Overflow at the boundary.
/// (64 x 64 bit symbolic multiplication against a 128-bit reference does not finish in the solver.)
fn mul_case(a: i64, b: i64) {
    let symbols = SymbolTable::new();
    let mut tmp = TemporarySymbolTable::new(&symbols);
    let ext = HashMap::new();
    let (l, r) = if kani::any() { (a, b) } else { (b, a) };
    let res = Binary::Mul.evaluate(Term::Integer(l), Term::Integer(r), &mut tmp, &ext);
    let wide = a as i128 * b as i128;
    let ok = match &res {
        Ok(Term::Integer(v)) => *v as i128 == wide,
        Err(error::Expression::Overflow) => wide > i64::MAX as i128 || wide < i64::MIN as i128,
        _ => false,
    };
    kani::cover!(res.is_ok(), "witness-any: a product was returned");
    kani::cover!(res.is_err(), "witness-any: an overflow was reported");
    std::mem::forget(res);
    std::mem::forget(tmp);
    std::mem::forget(ext);
    assert!(ok, "integer multiplication wraps or reports a wrong overflow");
}
#[kani::proof]
#[kani::stub(regex::Regex::new, crate::kh_support::regex_new_stub)]
#[kani::stub(regex::Regex::is_match, crate::kh_support::regex_is_match_stub)]
#[kani::unwind(3)]
fn c06_mul_value_32x8() {
    let a: i32 = kani::any();
    let b: i8 = kani::any();
    mul_case(a as i64, b as i64);
}
#[kani::proof]
#[kani::stub(regex::Regex::new, crate::kh_support::regex_new_stub)]
#[kani::stub(regex::Regex::is_match, crate::kh_support::regex_is_match_stub)]
#[kani::unwind(3)]
fn c06_mul_overflow_boundary() {
    let a: i64 = kani::any();
    let sel: u8 = kani::any();
    match sel {
        0 => mul_case(a, -3),
        1 => mul_case(a, -2),
        2 => mul_case(a, -1),
        3 => mul_case(a, 0),
        4 => mul_case(a, 1),
        5 => mul_case(a, 2),
        6 => mul_case(a, 3),
        _ => {}
    }
}
#[kani::proof]
#[kani::stub(regex::Regex::new, crate::kh_support::regex_new_stub)]
#[kani::stub(regex::Regex::is_match, crate::kh_support::regex_is_match_stub)]
#[kani::unwind(3)]
fn c06_div_value_64by8() {
    let symbols = SymbolTable::new();
    let mut tmp = TemporarySymbolTable::new(&symbols);
    let ext = HashMap::new();
    let a: i64 = kani::any();
    let b8: i8 = kani::any();
    let b = b8 as i64;
    let res = Binary::Div.evaluate(Term::Integer(a), Term::Integer(b), &mut tmp, &ext);
    let ok = match &res {
        // q is the truncated quotient: a = q*b + r with |r| < |b| and r having the sign of a
        Ok(Term::Integer(q)) => {
            let rem = a as i128 - (*q as i128) * (b as i128);
            b != 0 && !(a == i64::MIN && b == -1) && rem.abs() < (b as i128).abs() && (rem == 0 || (rem < 0) == (a < 0))
        }
        Err(error::Expression::DivideByZero) => b == 0 || (a == i64::MIN && b == -1),
        _ => false,
    };
    kani::cover!(res.is_err(), "witness: a division error was reported");
    std::mem::forget(res);
    std::mem::forget(tmp);
    std::mem::forget(ext);
    assert!(ok, "integer division is not the truncated quotient or reports a wrong error");
}

/// extern call whose name is not a known symbol, on both call sites
#[kani::proof]
#[kani::stub(regex::Regex::new, crate::kh_support::regex_new_stub)]
#[kani::stub(regex::Regex::is_match, crate::kh_support::regex_is_match_stub)]
#[kani::unwind(3)]
fn c06_ffi_unknown_symbol() {
    let symbols = SymbolTable::new();
    let mut tmp = TemporarySymbolTable::new(&symbols);
    let ext = HashMap::new();
    let res = if kani::any() {
        Binary::Ffi(5000).evaluate(Term::Integer(kani::any()), Term::Bool(kani::any()), &mut tmp, &ext)
    } else {
        Unary::Ffi(5000).evaluate(Term::Date(kani::any()), &mut tmp, &ext)
    };
    let ok = matches!(&res, Err(error::Expression::UnknownSymbol(5000)));
    kani::cover!(ok, "witness: unknown extern name reported");
    std::mem::forget(res);
    std::mem::forget(tmp);
    std::mem::forget(ext);
    assert!(ok, "an extern call with an unknown name is not reported as UnknownSymbol");
}
