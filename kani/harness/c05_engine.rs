//@ owner: biscuit-auth/src/datalog/mod.rs
//! C05-K2: `match_preds` (name, arity, term-wise matching) per term type, and
//! C05-K1 / C03-K2 (first form): one application of a single-predicate rule.
use super::*;
use crate::vstd::{BTreeMap, BTreeSet};

fn term_of(ty: u8, a: i64) -> Term {
    match ty {
        1 => Term::Integer(a),
        2 => Term::Str(a as u64),
        3 => Term::Date(a as u64),
        4 => Term::Bytes(vec![a as u8]),
        5 => Term::Bool(a & 1 == 1),
        6 => {
            let mut s = BTreeSet::new();
            s.insert(Term::Integer(a));
            Term::Set(s)
        }
        7 => Term::Null,
        8 => Term::Array(vec![Term::Integer(a)]),
        9 => {
            let mut m = BTreeMap::new();
            m.insert(MapKey::Integer(7), Term::Integer(a));
            Term::Map(m)
        }
        _ => Term::Variable(a as u32),
    }
}
fn same_value(ty: u8, a: i64, b: i64) -> bool {
    match ty {
        1 | 6 | 8 | 9 => a == b,
        2 | 3 => a as u64 == b as u64,
        4 => a as u8 == b as u8,
        5 => (a & 1) == (b & 1),
        7 => true,
        _ => false,
    }
}

/// rule predicate p(t) against fact predicate q(u): one term each, types chosen per branch
fn match_cell(rt: u8, ft: u8) {
    if rt == ft && (rt == 4 || rt == 6 || rt == 8 || rt == 9) {
        return;
    }
    let (a, b): (i64, i64) = (kani::any(), kani::any());
    let (n1, n2): (u64, u64) = (kani::any(), kani::any());
    let rp = Predicate { name: n1, terms: vec![term_of(rt, a)] };
    let fp = Predicate { name: n2, terms: vec![term_of(ft, b)] };
    let got = match_preds(&rp, &fp);
    // specification: same name, same arity, no variable in the fact, a rule variable matches
    // anything, otherwise same type and same value
    let term_ok = if ft == 0 { false } else if rt == 0 { true } else { rt == ft && same_value(rt, a, b) };
    let expected = n1 == n2 && term_ok;
    std::mem::forget(rp);
    std::mem::forget(fp);
    kani::cover!(got, "witness-any: some pair matches");
    kani::cover!(!got, "witness-any: some pair does not match");
    assert!(got == expected, "match_preds differs from term-wise unification");
}
/// cells (bytes,bytes), (set,set), (array,array), (map,map) are not run: the contents of a
/// collection term that sits inside a heap-allocated predicate are reached through a pointer
/// stored in an enum payload, which the symbolic executor cannot resolve (DESIGN, C05 "Out")
fn match_row(rt: u8) {
    let sel: u8 = kani::any();
    match sel {
        0 => match_cell(rt, 0),
        1 => match_cell(rt, 1),
        2 => match_cell(rt, 2),
        3 => match_cell(rt, 3),
        4 => match_cell(rt, 4),
        5 => match_cell(rt, 5),
        6 => match_cell(rt, 6),
        7 => match_cell(rt, 7),
        8 => match_cell(rt, 8),
        9 => match_cell(rt, 9),
        _ => {}
    }
}
macro_rules! mrow {
    ($name:ident, $rt:expr) => {
        #[kani::proof]
        #[kani::unwind(3)]
        fn $name() {
            match_row($rt);
        }
    };
}
mrow!(c05_match_variable, 0);
mrow!(c05_match_integer, 1);
mrow!(c05_match_string, 2);
mrow!(c05_match_date, 3);
mrow!(c05_match_bytes, 4);
mrow!(c05_match_bool, 5);
mrow!(c05_match_set, 6);
mrow!(c05_match_null, 7);
mrow!(c05_match_array, 8);
mrow!(c05_match_map, 9);

/// arity: predicates with different numbers of terms never match, whatever the terms
fn arity_case(rule_terms: Vec<Term>, fact_terms: Vec<Term>, expected: bool) {
    let name: u64 = kani::any();
    let rp = Predicate { name, terms: rule_terms };
    let fp = Predicate { name, terms: fact_terms };
    let got = match_preds(&rp, &fp);
    std::mem::forget(rp);
    std::mem::forget(fp);
    kani::cover!(got, "witness-any: equal arity matches");
    kani::cover!(!got, "witness-any: different arity does not match");
    assert!(got == expected, "predicates of different arity match (or predicates of equal arity with rule variables do not)");
}
#[kani::proof]
#[kani::unwind(4)]
fn c05_match_arity() {
    let sel: u8 = kani::any();
    match sel {
        0 => arity_case(vec![Term::Variable(0)], vec![Term::Integer(kani::any()), Term::Integer(kani::any())], false),
        1 => arity_case(vec![Term::Variable(0), Term::Variable(1)], vec![Term::Integer(kani::any())], false),
        2 => arity_case(Vec::new(), vec![Term::Integer(kani::any())], false),
        3 => arity_case(vec![Term::Variable(0)], Vec::new(), false),
        4 => arity_case(Vec::new(), Vec::new(), true),
        5 => arity_case(vec![Term::Variable(0), Term::Variable(0)], vec![Term::Integer(kani::any()), Term::Bool(kani::any())], true),
        6 => {
            let (a, b): (i64, i64) = (kani::any(), kani::any());
            arity_case(vec![Term::Integer(a), Term::Variable(0)], vec![Term::Integer(b), Term::Null], a == b)
        }
        _ => {}
    }
}

/// provenance arithmetic: `Origin::{insert, union, is_superset}` against bit masks
#[kani::proof]
#[kani::unwind(66)]
fn c05_origin_union() {
    let ids: [usize; 4] = kani::any();
    kani::assume(ids[0] < 6 && ids[1] < 6 && ids[3] < 6);
    kani::assume(ids[2] < 6 || ids[2] == usize::MAX);
    let mut a = Origin::default();
    a.insert(ids[0]);
    if kani::any() {
        a.insert(ids[1]);
    }
    let mut b = Origin::default();
    b.insert(ids[2]);
    if kani::any() {
        b.insert(ids[3]);
    }
    let u = a.union(&b);
    let probe: usize = kani::any();
    kani::assume(probe < 6 || probe == usize::MAX);
    let mut p = Origin::default();
    p.insert(probe);
    let in_a = a.is_superset(&p);
    let in_b = b.is_superset(&p);
    kani::cover!(u.is_superset(&p) && !in_a, "witness: the union gained an id from the second origin");
    assert!(u.is_superset(&p) == (in_a || in_b), "union of two origins is not the set union");
    assert!(u.is_superset(&a) && u.is_superset(&b), "union does not contain both operands");
}

/// C10-K1 (rule-free worlds): `World::run_with_limits` on a store with facts and no rule, for every
/// limit triple: it returns Ok after one round, adds no iteration, and - the property's wording -
/// reports no more facts than the budget on success.
#[kani::proof]
#[kani::stub(regex::Regex::new, crate::kh_support::regex_new_stub)]
#[kani::stub(regex::Regex::is_match, crate::kh_support::regex_is_match_stub)]
#[kani::unwind(6)]
fn c10_run_without_rules() {
    let mut w = World::new();
    let mut o = Origin::default();
    o.insert(0);
    w.facts.insert(&o, Fact { predicate: Predicate { name: 1, terms: vec![Term::Integer(kani::any())] } });
    w.facts.insert(&o, Fact { predicate: Predicate { name: 2, terms: vec![Term::Integer(kani::any())] } });
    let it0: u64 = kani::any();
    w.iterations = it0;
    let (mf, mi): (u64, u64) = (kani::any(), kani::any());
    let s: u64 = kani::any();
    let n: u32 = kani::any();
    kani::assume(n < 1_000_000_000);
    let limits = RunLimits { max_facts: mf, max_iterations: mi, max_time: Duration::new(s, n) };
    let syms = SymbolTable::new();
    crate::kh_support::clock_reset();
    let r = w.run_with_limits(&syms, limits);
    let ok = r.is_ok();
    let count = w.facts.len();
    let it1 = w.iterations;
    std::mem::forget(r);
    std::mem::forget(w);
    std::mem::forget(syms);
    kani::cover!(ok, "witness: the run reached its fixpoint");
    assert!(ok, "a world without rules does not reach its fixpoint in one round");
    assert!(it1 == it0 && count == 2, "a round that derived nothing changed the iteration count or the facts");
    assert!(count as u64 <= mf, "the run succeeds with more facts than the fact budget");
}

/// C05 / C11: accumulation of one round's results is the per-origin union, whatever else the
/// store already holds: a fact derived under two different origin sets is kept under both, and a
/// fact already known under another origin does not absorb it (so the result cannot depend on
/// the order in which the derived facts are visited).
fn int_fact(name: u64, v: i64) -> Fact {
    Fact { predicate: Predicate { name, terms: vec![Term::Integer(v)] } }
}
fn origin2(a: usize, b: usize) -> Origin {
    let mut o = Origin::default();
    o.insert(a);
    o.insert(b);
    o
}
#[kani::proof]
#[kani::unwind(6)]
fn c05_factset_merge_is_union() {
    let v: i64 = kani::any();
    let (o1, o2, o3) = (origin2(0, 0), origin2(0, 1), origin2(0, 2));
    let mut store = FactSet::default();
    store.insert(&o1, int_fact(1, v));
    let mut derived = FactSet::default();
    derived.insert(&o2, int_fact(1, v));
    derived.insert(&o3, int_fact(1, v));
    derived.insert(&o3, int_fact(2, v));
    store.merge(derived);
    let n = store.len();
    let mut under = [0u8; 3];
    for (o, set) in store.inner.iter() {
        let k = if *o == o1 { 0 } else if *o == o2 { 1 } else { 2 };
        under[k] += set.len() as u8;
    }
    std::mem::forget(store);
    kani::cover!(n == 4, "witness: all four (origin, fact) pairs are present");
    assert!(n == 4 && under[0] == 1 && under[1] == 1 && under[2] == 2, "merging derived facts loses or moves a (fact, origin) pair");
}
