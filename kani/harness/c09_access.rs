//@ owner: biscuit-auth/src/token/mod.rs
//! C09-K1: block accessors with ANY index on directly built tokens never panic: an index
//! beyond the last block is an error value. Tokens of one and two (empty, version 3..6) blocks;
//! the index is symbolic where no in-range element can be selected by it and one concrete value
//! per in-range position otherwise.
use super::*;
use crate::crypto::kh_keys::{any_private, any_public};
use crate::format::schema;

fn empty_block() -> schema::Block {
    let v: u32 = kani::any();
    kani::assume(v >= 3 && v <= 6);
    schema::Block {
        symbols: Vec::new(),
        context: None,
        version: Some(v),
        facts_v2: Vec::new(),
        rules_v2: Vec::new(),
        checks_v2: Vec::new(),
        scope: Vec::new(),
        public_keys: Vec::new(),
    }
}
fn sblock() -> crate::crypto::Block {
    let d: [u8; 2] = kani::any();
    let s: [u8; 3] = kani::any();
    crate::crypto::Block {
        data: d.to_vec(),
        next_key: any_public(false),
        signature: crate::crypto::Signature::from_vec(s.to_vec()),
        external_signature: None,
        version: 0,
    }
}
fn token(n_blocks: usize) -> Biscuit {
    let (blocks, cblocks) = if n_blocks == 1 { (vec![empty_block()], vec![sblock()]) } else { (Vec::new(), Vec::new()) };
    Biscuit {
        root_key_id: None,
        authority: empty_block(),
        blocks,
        symbols: SymbolTable::new(),
        container: crate::format::SerializedBiscuit {
            root_key_id: None,
            authority: sblock(),
            blocks: cblocks,
            proof: crate::crypto::TokenNext::Secret(any_private(false)),
        },
    }
}

/// which accessor
fn call(t: &Biscuit, which: u8, index: usize) -> bool {
    match which {
        0 => {
            let r = t.block_version(index);
            let ok = r.is_ok();
            std::mem::forget(r);
            ok
        }
        1 => {
            let r = t.block_symbols(index);
            let ok = r.is_ok();
            std::mem::forget(r);
            ok
        }
        2 => {
            let r = t.block_external_key(index);
            let ok = r.is_ok();
            std::mem::forget(r);
            ok
        }
        _ => {
            let r = t.block_public_keys(index);
            let ok = r.is_ok();
            std::mem::forget(r);
            ok
        }
    }
}

/// `block()` converts the protobuf block of an in-range index (string interning over the default
/// symbol table: too heavy for the solver); only out-of-range indices are run through it, as
/// concrete values (a symbolic index would make the unreachable conversion part of the program)
fn run_out_of_range(n_blocks: usize) {
    let t = token(n_blocks);
    let sel: u8 = kani::any();
    let ok = match sel {
        0 => call(&t, 0, n_blocks + 1),
        1 => call(&t, 0, n_blocks + 2),
        2 => call(&t, 0, usize::MAX),
        _ => call(&t, 0, usize::MAX - 1),
    };
    kani::cover!(!ok, "witness: an index out of range was refused");
    assert!(!ok, "block(index) accepts an index out of range");
    std::mem::forget(t);
}

fn run(n_blocks: usize, which: u8) {
    let t = token(n_blocks);
    let sel: u8 = kani::any();
    let (ok, in_range) = match sel {
        0 => (call(&t, which, 0), true),
        1 => (call(&t, which, 1), n_blocks >= 1),
        2 => (call(&t, which, 2), false),
        3 => (call(&t, which, usize::MAX), false),
        _ => {
            // every index that cannot select an existing block, symbolically
            let i: usize = kani::any();
            kani::assume(i > n_blocks + 1);
            (call(&t, which, i), false)
        }
    };
    kani::cover!(ok, "witness-any: an existing block was returned");
    kani::cover!(!ok, "witness-any: an index out of range was refused");
    assert!(ok == in_range, "accessor accepts an index out of range or refuses an existing block");
    std::mem::forget(t);
}

macro_rules! acc {
    ($name:ident, $n:expr, $which:expr) => {
        #[kani::proof]
        #[kani::stub(regex::Regex::new, crate::kh_support::regex_new_stub)]
        #[kani::stub(regex::Regex::is_match, crate::kh_support::regex_is_match_stub)]
        #[kani::stub(alloc::fmt::format, crate::kh_support::fmt_format_stub)]
        #[kani::stub(zeroize::optimization_barrier, crate::kh_support::barrier_stub)]
        #[kani::unwind(30)]
        fn $name() {
            run($n, $which);
        }
    };
}
macro_rules! oor {
    ($name:ident, $n:expr) => {
        #[kani::proof]
        #[kani::stub(regex::Regex::new, crate::kh_support::regex_new_stub)]
        #[kani::stub(regex::Regex::is_match, crate::kh_support::regex_is_match_stub)]
        #[kani::stub(alloc::fmt::format, crate::kh_support::fmt_format_stub)]
        #[kani::stub(zeroize::optimization_barrier, crate::kh_support::barrier_stub)]
        #[kani::unwind(30)]
        fn $name() {
            run_out_of_range($n);
        }
    };
}
oor!(c09_block_index_out_of_range_1block, 0);
oor!(c09_block_index_out_of_range_2blocks, 1);
acc!(c09_block_symbols_1block, 0, 1);
acc!(c09_block_symbols_2blocks, 1, 1);
acc!(c09_block_external_key_2blocks, 1, 2);

/// C15-K1: the revocation identifiers are the stored signatures, block by block, in order;
/// external keys likewise
#[kani::proof]
#[kani::stub(zeroize::optimization_barrier, crate::kh_support::barrier_stub)]
#[kani::unwind(6)]
fn c15_revocation_identifiers_biscuit() {
    let t = token(1);
    let ids = t.revocation_identifiers();
    let ok = ids.len() == 2
        && ids[0] == t.container.authority.signature.to_bytes()
        && ids[1] == t.container.blocks[0].signature.to_bytes();
    let keys = t.external_public_keys();
    let ok2 = keys.len() == 2 && keys[0].is_none() && keys[1].is_none() && t.block_count() == 2;
    kani::cover!(ok, "witness: identifiers listed");
    assert!(ok, "revocation identifiers are not the block signatures in order");
    assert!(ok2, "external keys / block count do not follow the container");
    std::mem::forget(ids);
    std::mem::forget(keys);
    std::mem::forget(t);
}

/// C08-K1 at the `Biscuit` level: a sealed token refuses a third-party request and a re-seal
#[kani::proof]
#[kani::stub(alloc::fmt::format, crate::kh_support::fmt_format_stub)]
#[kani::stub(zeroize::optimization_barrier, crate::kh_support::barrier_stub)]
#[kani::unwind(6)]
fn c08_sealed_biscuit_refuses() {
    let mut t = token(1);
    let s: [u8; 3] = kani::any();
    let old = std::mem::replace(&mut t.container.proof, crate::crypto::TokenNext::Seal(crate::crypto::Signature::from_vec(s.to_vec())));
    std::mem::forget(old);
    crate::crypto::kh_oracle::switch_on();
    let refused = if kani::any() {
        matches!(t.third_party_request(), Err(error::Token::AppendOnSealed))
    } else {
        matches!(t.seal(), Err(error::Token::AlreadySealed))
    };
    kani::cover!(refused, "witness: a sealed token refused the operation");
    assert!(refused, "a sealed Biscuit accepts a third-party request or a re-seal");
    assert!(crate::crypto::kh_oracle::n_sign() == 0, "something was signed for a sealed token");
    std::mem::forget(t);
}
