//@ owner: biscuit-auth/src/lib.rs
//! crate-level support shared by all harness modules (stubs for foreign crates).
pub fn regex_new_stub(_re: &str) -> Result<regex::Regex, regex::Error> {
    Err(regex::Error::Syntax(String::new()))
}
pub fn regex_is_match_stub(_r: &regex::Regex, _s: &str) -> bool {
    kani::any()
}
pub fn fmt_format_stub(_args: std::fmt::Arguments<'_>) -> String {
    String::new()
}

// ---- clock: `crate::time::Instant::now()` is routed here (see routes.json). Arbitrary
// non-decreasing instants: a base instant (all-zero Timespec) plus a running offset that grows
// by a solver-chosen Duration on every reading. std's own Instant/Duration arithmetic runs.
static mut CLOCK_OFFSET: Option<std::time::Duration> = None;
pub fn clock_reset() {
    unsafe { CLOCK_OFFSET = Some(std::time::Duration::new(0, 0)) }
}
pub fn clock_on() -> bool {
    unsafe { CLOCK_OFFSET.is_some() }
}
pub fn clock_now() -> std::time::Instant {
    let base: std::time::Instant = unsafe { std::mem::transmute([0u8; std::mem::size_of::<std::time::Instant>()]) };
    let step_s: u64 = kani::any();
    let step_n: u32 = kani::any();
    kani::assume(step_s < (1 << 40) && step_n < 1_000_000_000);
    unsafe {
        let cur = CLOCK_OFFSET.unwrap();
        let next = cur + std::time::Duration::new(step_s, step_n);
        kani::assume(next.as_secs() < (1 << 50));
        CLOCK_OFFSET = Some(next);
        base + next
    }
}

/// `zeroize::optimization_barrier` is an empty inline-assembly statement (a compiler barrier):
/// nothing to execute symbolically.
pub fn barrier_stub<T: ?Sized>(_val: &T) {}

// ---- entry points for harnesses that live in another crate of the workspace (biscuit-capi)
pub fn capi_any_public(p256: bool) -> crate::PublicKey {
    crate::crypto::kh_keys::any_public(p256)
}
pub fn capi_oracle_on() {
    crate::crypto::kh_oracle::switch_on()
}
