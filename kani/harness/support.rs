//@ owner: biscuit-auth/src/lib.rs
//! crate-level support shared by all harness modules (stubs for foreign crates).
pub fn regex_new_stub(_re: &str) -> Result<regex::Regex, regex::Error> {
    Err(regex::Error::Syntax(String::new()))
}
pub fn regex_is_match_stub(_r: &regex::Regex, _s: &str) -> bool {
    kani::any()
}
pub fn fmt_format_stub(_args: std::fmt::Arguments<'_>) -> String {
    String::new()
}
