//@ owner: biscuit-auth/src/token/authorizer/snapshot.rs
//! C13-K1: the numeric envelope of an authorizer snapshot: limits, time spent, iteration
//! count and origin sets survive snapshot() -> from_snapshot() for every value.
use super::*;
use crate::datalog::Origin;

fn any_duration_ns(max_secs: u64) -> Duration {
    let s: u64 = kani::any();
    let n: u32 = kani::any();
    kani::assume(n < 1_000_000_000 && s <= max_secs);
    Duration::new(s, n)
}

#[kani::proof]
#[kani::unwind(6)]
fn c13_origin_roundtrip() {
    let ids: [usize; 3] = kani::any();
    kani::assume(ids[0] < 63 && ids[1] < 63);
    kani::assume(ids[2] < 63 || ids[2] == usize::MAX);
    let mut o = Origin::default();
    o.insert(ids[0]);
    o.insert(ids[1]);
    o.insert(ids[2]);
    let p = authorizer_origin_to_proto_origin(&o);
    let back = proto_origin_to_authorizer_origin(&p);
    let ok = matches!(&back, Ok(b) if *b == o);
    std::mem::forget(p);
    kani::cover!(ok, "witness: origin restored");
    assert!(ok, "an origin set does not survive the snapshot encoding");
}

fn envelope(mt: Duration, et: Duration) {
    let mut a = crate::token::authorizer::Authorizer::new();
    let (mf, mi, it): (u64, u64, u64) = (kani::any(), kani::any(), kani::any());
    a.limits = crate::token::authorizer::AuthorizerLimits { max_facts: mf, max_iterations: mi, max_time: mt };
    a.execution_time = Some(et);
    a.world.iterations = it;
    let snap = a.snapshot();
    let ok = snap.is_ok();
    kani::cover!(ok, "witness: snapshot taken");
    assert!(ok, "snapshot of an empty authorizer fails");
    if let Ok(s) = &snap {
        assert!(s.limits.max_facts == mf && s.limits.max_iterations == mi && s.world.iterations == it, "fact / iteration budget or count altered by snapshot");
        assert!(s.limits.max_time as u128 == mt.as_nanos(), "time budget altered by snapshot (truncated to 64-bit nanoseconds?)");
        assert!(s.execution_time as u128 == et.as_nanos(), "time spent altered by snapshot");
    }
    std::mem::forget(snap);
    std::mem::forget(a);
}

macro_rules! env {
    ($name:ident, $body:expr) => {
        #[kani::proof]
        #[kani::stub(regex::Regex::new, crate::kh_support::regex_new_stub)]
        #[kani::stub(regex::Regex::is_match, crate::kh_support::regex_is_match_stub)]
        #[kani::stub(alloc::fmt::format, crate::kh_support::fmt_format_stub)]
        #[kani::unwind(30)]
        fn $name() {
            $body
        }
    };
}
// everything 64-bit nanoseconds can hold (about 584 years)
env!(c13_envelope_representable, envelope(any_duration_ns(18_446_744_072), any_duration_ns(18_446_744_072)));
// "no limit" as the largest Duration
env!(c13_envelope_max_time_unbounded, envelope(any_duration_ns(u64::MAX), Duration::new(0, 0)));
