//@ owner: biscuit-auth/src/crypto/mod.rs
//! Key *objects* for harnesses. No curve arithmetic is ever executed on them: every bit
//! pattern is a valid object of these plain-data types (arrays of integers), though not
//! necessarily a valid curve point. They only flow through biscuit's own glue code.
use super::*;

pub(crate) fn any_ed25519_public() -> ed25519::PublicKey {
    let raw: [u8; std::mem::size_of::<ed25519::PublicKey>()] = kani::any();
    unsafe { std::mem::transmute(raw) }
}
pub(crate) fn any_p256_public() -> p256::PublicKey {
    let raw: [u8; std::mem::size_of::<p256::PublicKey>()] = kani::any();
    unsafe { std::mem::transmute(raw) }
}
pub(crate) fn any_public(p256: bool) -> PublicKey {
    if p256 {
        PublicKey::P256(any_p256_public())
    } else {
        PublicKey::Ed25519(any_ed25519_public())
    }
}
/// key pairs must be `mem::forget`-ed by the caller (their Drop zeroizes through volatile writes)
pub(crate) fn any_keypair(p256: bool) -> KeyPair {
    if p256 {
        let raw: [u8; std::mem::size_of::<p256::KeyPair>()] = kani::any();
        KeyPair::P256(unsafe { std::mem::transmute(raw) })
    } else {
        let raw: [u8; std::mem::size_of::<ed25519::KeyPair>()] = kani::any();
        KeyPair::Ed25519(unsafe { std::mem::transmute(raw) })
    }
}
pub(crate) fn any_private(p256: bool) -> PrivateKey {
    if p256 {
        let raw: [u8; std::mem::size_of::<p256::PrivateKey>()] = kani::any();
        PrivateKey::P256(unsafe { std::mem::transmute(raw) })
    } else {
        let raw: [u8; std::mem::size_of::<ed25519::PrivateKey>()] = kani::any();
        PrivateKey::Ed25519(unsafe { std::mem::transmute(raw) })
    }
}
