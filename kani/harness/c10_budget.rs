//@ owner: biscuit-auth/src/token/authorizer.rs
//! C10-K2: the budget carried from `run()` into `authorize()`: for every (iterations already
//! spent, iteration budget, fact budget, time budget, time already spent) the call returns -
//! it never panics on the budget arithmetic - and it refuses with RunLimit::Timeout when the
//! time already spent reaches the budget. The state is set directly on an empty authorizer;
//! every such state is reachable through `Authorizer::from_snapshot` (untrusted input), and
//! iterations > max_iterations also through `run()` itself when max_iterations is 0.
use super::*;

/// durations a snapshot can carry (u64 nanoseconds) or a caller can configure
fn any_duration(max_secs: u64) -> Duration {
    let s: u64 = kani::any();
    let n: u32 = kani::any();
    kani::assume(n < 1_000_000_000 && s <= max_secs);
    Duration::new(s, n)
}

fn run_prologue(it: u64, mi: u64, mf: u64, mt: Duration, et: Duration) {
    let mut a = Authorizer::new();
    a.world.iterations = it;
    a.limits = AuthorizerLimits { max_facts: mf, max_iterations: mi, max_time: mt };
    a.execution_time = Some(et);
    crate::kh_support::clock_reset();
    let r = a.authorize();
    let timeout = matches!(r, Err(error::Token::RunLimit(error::RunLimit::Timeout)));
    let limit = matches!(r, Err(error::Token::RunLimit(_)));
    let no_policy = matches!(r, Err(error::Token::FailedLogic(error::Logic::NoMatchingPolicy { .. })));
    std::mem::forget(r);
    std::mem::forget(a);
    kani::cover!(timeout, "witness-any: time budget already spent");
    kani::cover!(no_policy, "witness-any: evaluation went on to the (empty) policy list");
    if et >= mt {
        assert!(timeout, "authorize() continues although the time already spent reaches the budget");
    }
    if it > mi {
        assert!(limit, "authorize() continues although more iterations were spent than the budget");
    }
    assert!(limit || no_policy);
}

macro_rules! budget {
    ($name:ident, $body:expr) => {
        #[kani::proof]
        #[kani::stub(regex::Regex::new, crate::kh_support::regex_new_stub)]
        #[kani::stub(regex::Regex::is_match, crate::kh_support::regex_is_match_stub)]
        #[kani::stub(alloc::fmt::format, crate::kh_support::fmt_format_stub)]
        #[kani::unwind(3)]
        fn $name() {
            $body
        }
    };
}
// iteration budget: any spent count against any budget; time budget far away
budget!(c10_authorize_iterations_budget, {
    run_prologue(kani::any(), kani::any(), kani::any(), Duration::new(1 << 40, 0), any_duration(1 << 30))
});
// time budget: anything a snapshot can carry (< 2^64 ns is about 1.9e10 s) on both sides
budget!(c10_authorize_time_budget, {
    let it: u64 = kani::any();
    let mi: u64 = kani::any();
    kani::assume(it <= mi);
    run_prologue(it, mi, kani::any(), any_duration(1 << 35), any_duration(1 << 35))
});
// "no limit" configured as the largest Duration
budget!(c10_authorize_time_budget_max, {
    run_prologue(0, 1000, 1000, Duration::MAX, any_duration(1 << 35))
});

// time spent is cumulative: after authorize() the recorded time is at least what was recorded before
budget!(c10_authorize_time_is_cumulative, {
    let mut a = Authorizer::new();
    let et = any_duration(1 << 30);
    a.limits = AuthorizerLimits { max_facts: 1000, max_iterations: 1000, max_time: Duration::new(1 << 40, 0) };
    a.execution_time = Some(et);
    crate::kh_support::clock_reset();
    let r = a.authorize();
    let after = a.execution_time;
    std::mem::forget(r);
    std::mem::forget(a);
    kani::cover!(matches!(after, Some(d) if d > et), "witness: the clock advanced during authorize()");
    assert!(matches!(after, Some(d) if d >= et), "authorize() forgets the time already spent");
});
