//@ owner: biscuit-auth/src/token/unverified.rs
//! C09-K1 / C15-K1 for `UnverifiedBiscuit`: block index just past the end, revocation identifiers.
use super::*;
use crate::crypto::kh_keys::{any_private, any_public};
use crate::format::schema;

fn empty_block() -> schema::Block {
    let v: u32 = kani::any();
    kani::assume(v >= 3 && v <= 6);
    schema::Block { symbols: Vec::new(), context: None, version: Some(v), facts_v2: Vec::new(), rules_v2: Vec::new(), checks_v2: Vec::new(), scope: Vec::new(), public_keys: Vec::new() }
}
fn sblock() -> crate::crypto::Block {
    let d: [u8; 2] = kani::any();
    let s: [u8; 3] = kani::any();
    crate::crypto::Block { data: d.to_vec(), next_key: any_public(false), signature: crate::crypto::Signature::from_vec(s.to_vec()), external_signature: None, version: 0 }
}
fn token(n_blocks: usize) -> UnverifiedBiscuit {
    let (blocks, cblocks) = if n_blocks == 1 { (vec![empty_block()], vec![sblock()]) } else { (Vec::new(), Vec::new()) };
    UnverifiedBiscuit {
        authority: empty_block(),
        blocks,
        symbols: SymbolTable::new(),
        container: SerializedBiscuit { root_key_id: None, authority: sblock(), blocks: cblocks, proof: crate::crypto::TokenNext::Secret(any_private(false)) },
    }
}

fn refused_at(t: &UnverifiedBiscuit, index: usize) -> bool {
    let r = t.block_version(index);
    let refused = r.is_err();
    std::mem::forget(r);
    refused
}
fn out_of_range(n_blocks: usize) {
    let t = token(n_blocks);
    let sel: u8 = kani::any();
    // one call per branch, each with a concrete index
    let refused = match sel {
        0 => refused_at(&t, n_blocks + 1),
        1 => refused_at(&t, n_blocks + 2),
        2 => refused_at(&t, usize::MAX),
        _ => refused_at(&t, usize::MAX - 1),
    };
    std::mem::forget(t);
    kani::cover!(refused, "witness: an index out of range was refused");
    assert!(refused, "block(index) accepts an index out of range");
}
macro_rules! u {
    ($name:ident, $body:expr) => {
        #[kani::proof]
        #[kani::stub(regex::Regex::new, crate::kh_support::regex_new_stub)]
        #[kani::stub(regex::Regex::is_match, crate::kh_support::regex_is_match_stub)]
        #[kani::stub(alloc::fmt::format, crate::kh_support::fmt_format_stub)]
        #[kani::stub(zeroize::optimization_barrier, crate::kh_support::barrier_stub)]
        #[kani::unwind(30)]
        fn $name() {
            $body
        }
    };
}
u!(c09_unverified_block_index_out_of_range_1block, out_of_range(0));
u!(c09_unverified_block_index_out_of_range_2blocks, out_of_range(1));
u!(c15_revocation_identifiers_unverified, {
    let t = token(1);
    let ids = t.revocation_identifiers();
    let ok = ids.len() == 2
        && ids[0] == t.container.authority.signature.to_bytes()
        && ids[1] == t.container.blocks[0].signature.to_bytes();
    kani::cover!(ok, "witness: identifiers listed");
    assert!(ok, "revocation identifiers are not the block signatures in order");
    assert!(t.block_count() == 2);
    std::mem::forget(ids);
    std::mem::forget(t);
});
u!(c08_sealed_unverified_refuses, {
    let mut t = token(1);
    let s: [u8; 3] = kani::any();
    let old = std::mem::replace(&mut t.container.proof, crate::crypto::TokenNext::Seal(crate::crypto::Signature::from_vec(s.to_vec())));
    std::mem::forget(old);
    crate::crypto::kh_oracle::switch_on();
    let refused = if kani::any() {
        matches!(t.third_party_request(), Err(error::Token::AppendOnSealed))
    } else {
        matches!(t.seal(), Err(error::Token::AlreadySealed))
    };
    kani::cover!(refused, "witness: a sealed token refused the operation");
    assert!(refused, "a sealed UnverifiedBiscuit accepts a third-party request or a re-seal");
    assert!(crate::crypto::kh_oracle::n_sign() == 0, "something was signed for a sealed token");
    std::mem::forget(t);
});
