//@ owner: biscuit-auth/src/datalog/expression.rs
use super::*;
use crate::datalog::{SymbolTable, TemporarySymbolTable};

#[kani::proof]
#[kani::stub(regex::Regex::new, crate::kh_support::regex_new_stub)]
#[kani::stub(regex::Regex::is_match, crate::kh_support::regex_is_match_stub)]
#[kani::unwind(3)]
fn smoke_binary_add() {
    let symbols = SymbolTable::new();
    let mut tmp = TemporarySymbolTable::new(&symbols);
    let ext = HashMap::new();
    let a: i64 = kani::any();
    let b: i64 = kani::any();
    let r = Binary::Add.evaluate(Term::Integer(a), Term::Integer(b), &mut tmp, &ext);
    let wide = a as i128 + b as i128;
    let ok = match &r {
        Ok(Term::Integer(v)) => wide == *v as i128,
        Err(error::Expression::Overflow) => wide > i64::MAX as i128 || wide < i64::MIN as i128,
        _ => false,
    };
    kani::cover!(r.is_ok());
    std::mem::forget(r);
    std::mem::forget(tmp);
    std::mem::forget(ext);
    assert!(ok);
}
