// attempt (again, with all the rules of DESIGN section 1): Expression::evaluate on [int, int, +]: the variant of an Op read out of the ops vector is not kept constant (Op's tag is niche-encoded in Term's), so Term::clone unfolds; no verdict in 600 s

// ---------------------------------------------------------------- Expression::evaluate (probe)
#[kani::proof]
#[kani::stub(regex::Regex::new, crate::kh_support::regex_new_stub)]
#[kani::stub(regex::Regex::is_match, crate::kh_support::regex_is_match_stub)]
#[kani::unwind(5)]
fn c06x_expr_add() {
    let symbols = SymbolTable::new();
    let mut tmp = TemporarySymbolTable::new(&symbols);
    let ext = HashMap::new();
    let values: HashMap<u32, Term> = HashMap::new();
    let (a, b): (i64, i64) = (kani::any(), kani::any());
    let e = Expression { ops: vec![Op::Value(Term::Integer(a)), Op::Value(Term::Integer(b)), Op::Binary(Binary::Add)] };
    let r = e.evaluate(&values, &mut tmp, &ext);
    let wide = a as i128 + b as i128;
    let ok = match &r {
        Ok(Term::Integer(v)) => wide == *v as i128,
        Err(error::Expression::Overflow) => wide > i64::MAX as i128 || wide < i64::MIN as i128,
        _ => false,
    };
    kani::cover!(r.is_ok(), "witness: evaluated");
    std::mem::forget(r);
    std::mem::forget(e);
    std::mem::forget(tmp);
    std::mem::forget(ext);
    std::mem::forget(values);
    assert!(ok, "expression evaluation differs from the operator");
}
