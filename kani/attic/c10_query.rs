// attempt: Authorizer::query() with a body-only builder rule on an empty authorizer: with the bound the symbol-table search needs (unwind 30) no verdict in 900 s

// time spent is cumulative across query(): a query on an (empty) authorizer never lowers the
// recorded time, and query_all() refuses when the budget is already spent
fn probe_rule() -> crate::builder::Rule {
    crate::builder::Rule {
        head: crate::builder::Predicate { name: "q".to_string(), terms: Vec::new() },
        body: vec![crate::builder::Predicate { name: "p".to_string(), terms: Vec::new() }],
        expressions: Vec::new(),
        parameters: None,
        scopes: Vec::new(),
        scope_parameters: None,
    }
}
#[kani::proof]
#[kani::stub(regex::Regex::new, crate::kh_support::regex_new_stub)]
#[kani::stub(regex::Regex::is_match, crate::kh_support::regex_is_match_stub)]
#[kani::stub(alloc::fmt::format, crate::kh_support::fmt_format_stub)]
#[kani::unwind(30)]
fn c10_query_time_is_cumulative() {
    let mut a = Authorizer::new();
    let et = any_duration(1 << 30);
    a.limits = AuthorizerLimits { max_facts: 1000, max_iterations: 1000, max_time: Duration::new(1 << 40, 0) };
    a.execution_time = Some(et);
    crate::kh_support::clock_reset();
    let r: Result<Vec<crate::builder::Fact>, error::Token> = a.query(probe_rule());
    let ok = r.is_ok();
    let after = a.execution_time;
    std::mem::forget(r);
    std::mem::forget(a);
    kani::cover!(ok, "witness: the query ran");
    assert!(ok, "a query on an empty authorizer fails");
    assert!(matches!(after, Some(d) if d >= et), "query() forgets the time already spent");
}
