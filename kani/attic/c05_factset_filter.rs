// attempt: FactSet::iterator(trusted) over two origin classes with a symbolic trusted set: 800k steps, out of memory (filter_map + flatten over model maps with a symbolic predicate)

/// C03-K3 / C04: the visibility filter `FactSet::iterator(trusted)` yields exactly the facts
/// whose origin is a subset of the trusted set (two origin classes, one scalar fact each)
#[kani::proof]
#[kani::unwind(6)]
fn c05_factset_visibility_filter() {
    // the two origin classes are concrete (a symbolic origin would make the store's own key
    // lookup symbolic); the trusted set is symbolic
    let mut o1 = Origin::default();
    o1.insert(0);
    o1.insert(1);
    let mut o2 = Origin::default();
    o2.insert(0);
    o2.insert(2);
    let mut fs = FactSet::default();
    fs.insert(&o1, Fact { predicate: Predicate { name: 1, terms: vec![Term::Integer(kani::any())] } });
    fs.insert(&o2, Fact { predicate: Predicate { name: 2, terms: vec![Term::Integer(kani::any())] } });
    let mut t = Origin::default();
    let tids: [usize; 3] = kani::any();
    kani::assume(tids[0] < 6 && tids[1] < 6 && tids[2] < 6);
    t.insert(tids[0]);
    t.insert(tids[1]);
    t.insert(tids[2]);
    let trusted: TrustedOrigins = t.inner.iter().collect();
    let see1 = t.is_superset(&o1);
    let see2 = t.is_superset(&o2);
    let mut seen1 = false;
    let mut seen2 = false;
    let mut extra = false;
    for (origin, fact) in fs.iterator(&trusted) {
        if fact.predicate.name == 1 && *origin == o1 {
            seen1 = true;
        } else if fact.predicate.name == 2 && *origin == o2 {
            seen2 = true;
        } else {
            extra = true;
        }
    }
    std::mem::forget(fs);
    kani::cover!(seen1 && !seen2, "witness: one fact visible, the other hidden");
    assert!(!extra && seen1 == see1 && seen2 == see2, "the visibility filter shows a fact with an untrusted contributor or hides a trusted one");
}
