//@ owner: biscuit-auth/src/format/mod.rs
//! C01-K2: structural rejections of `SerializedBiscuit::deserialize` that no signature protects:
//! an authority block carrying an external signature, a third-party block whose signature
//! version is not 1, a missing proof. The wire bytes are produced by prost's encoder from a
//! schema message of concrete shape with symbolic field contents, then decoded by the real code.
use super::*;
use crate::crypto::kh_c17_guards::ed_verifying_from_bytes_ok_stub;

fn pk() -> schema::PublicKey {
    let k: [u8; 32] = kani::any();
    schema::PublicKey { algorithm: 0, key: k.to_vec() }
}
fn bytes2() -> Vec<u8> {
    let a: [u8; 2] = kani::any();
    a.to_vec()
}
fn signed(version: Option<u32>, ext: bool) -> schema::SignedBlock {
    schema::SignedBlock {
        block: bytes2(),
        next_key: pk(),
        signature: bytes2(),
        external_signature: if ext { Some(schema::ExternalSignature { signature: bytes2(), public_key: pk() }) } else { None },
        version,
    }
}

fn run(authority_ext: bool, block: Option<(Option<u32>, bool)>, with_proof: bool) {
    let msg = schema::Biscuit {
        root_key_id: None,
        authority: signed(Some(1), authority_ext),
        blocks: match block {
            Some((v, e)) => vec![signed(v, e)],
            None => Vec::new(),
        },
        proof: schema::Proof { content: if with_proof { Some(schema::proof::Content::FinalSignature(bytes2())) } else { None } },
    };
    let mut wire = Vec::new();
    let enc = msg.encode(&mut wire);
    kani::assume(enc.is_ok());
    let r = SerializedBiscuit::deserialize(&wire, ThirdPartyVerificationMode::PreviousSignatureHashing);
    let accepted = r.is_ok();
    let bad_tp = matches!(block, Some((v, true)) if v != Some(1));
    let must_refuse = authority_ext || bad_tp || !with_proof;
    kani::cover!(accepted, "witness-any: a well-formed envelope decodes");
    kani::cover!(!accepted, "witness-any: a malformed envelope is refused");
    assert!(accepted != must_refuse, "envelope check: authority external signature / third-party version / missing proof not enforced (or a well-formed envelope refused)");
    if let Ok(t) = &r {
        assert!(t.authority.external_signature.is_none());
        assert!(t.blocks.len() == if block.is_some() { 1 } else { 0 });
    }
    std::mem::forget(r);
    std::mem::forget(msg);
    std::mem::forget(wire);
}

macro_rules! d {
    ($name:ident, $body:expr) => {
        #[kani::proof]
        #[kani::stub(ed25519_dalek::VerifyingKey::from_bytes, ed_verifying_from_bytes_ok_stub)]
        #[kani::stub(alloc::fmt::format, crate::kh_support::fmt_format_stub)]
        #[kani::stub(zeroize::optimization_barrier, crate::kh_support::barrier_stub)]
        #[kani::unwind(34)]
        fn $name() {
            $body
        }
    };
}
d!(c01_deser_authority_only_ok, run(false, None, true));
d!(c01_deser_authority_with_external_signature, run(true, None, true));
d!(c01_deser_third_party_v1_ok, run(false, Some((Some(1), true)), true));
d!(c01_deser_third_party_v0_refused, run(false, Some((None, true)), true));
d!(c01_deser_missing_proof, run(false, None, false));
