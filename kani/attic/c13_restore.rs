// attempt: from_snapshot on an empty snapshot with symbolic nanosecond fields did not finish in 600 s
// (Duration::from_nanos = 64-bit division by 10^9, bit-blasted)

/// restoring: limits, time spent and iteration count come back as stored; versions outside 3..=6 are refused
fn restore() {
    let (mf, mi, mt, et, it): (u64, u64, u64, u64, u64) = (kani::any(), kani::any(), kani::any(), kani::any(), kani::any());
    let version: u32 = kani::any();
    kani::assume(version <= 8);
    let block_version: u32 = kani::any();
    kani::assume(block_version >= 3 && block_version <= 6);
    let snap = schema::AuthorizerSnapshot {
        limits: schema::RunLimits { max_facts: mf, max_iterations: mi, max_time: mt },
        execution_time: et,
        world: schema::AuthorizerWorld {
            version: Some(version),
            symbols: Vec::new(),
            public_keys: Vec::new(),
            blocks: Vec::new(),
            authorizer_block: schema::SnapshotBlock {
                context: None,
                version: Some(block_version),
                facts_v2: Vec::new(),
                rules_v2: Vec::new(),
                checks_v2: Vec::new(),
                scope: Vec::new(),
                external_key: None,
            },
            authorizer_policies: Vec::new(),
            generated_facts: Vec::new(),
            iterations: it,
        },
    };
    let r = crate::token::authorizer::Authorizer::from_snapshot(snap);
    let ok = r.is_ok();
    kani::cover!(ok, "witness: snapshot restored");
    kani::cover!(!ok, "witness: unsupported version refused");
    assert!(ok == (version >= 3 && version <= 6), "snapshot version gate is not 3..=6");
    if let Ok(a) = &r {
        assert!(a.limits.max_facts == mf && a.limits.max_iterations == mi && a.world.iterations == it, "restored budgets / iteration count differ");
        assert!(a.limits.max_time.as_nanos() == mt as u128, "restored time budget differs");
        match a.execution_time {
            Some(d) => assert!(et > 0 && d.as_nanos() == et as u128, "restored time spent differs"),
            None => assert!(et == 0, "time spent dropped by restore"),
        }
    }
    std::mem::forget(r);
}
env!(c13_restore_envelope, restore());
