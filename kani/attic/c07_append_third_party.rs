// attempt: Biscuit::append_third_party_with_keypair with the oracle on a two-block token: no verdict in 900 s

/// C07-K1: `Biscuit::append_third_party_with_keypair`: the block is attached only if the key the
/// response states is the key the caller expects AND the signature primitive accepted
/// (that key, X(payload, signature of the token's last block, version 1), the response's
/// signature); nothing is signed into the chain before that.
#[kani::proof]
#[kani::stub(ed25519_dalek::VerifyingKey::from_bytes, crate::crypto::kh_c17_guards::ed_verifying_from_bytes_ok_stub)]
#[kani::stub(alloc::fmt::format, crate::kh_support::fmt_format_stub)]
#[kani::stub(zeroize::optimization_barrier, crate::kh_support::barrier_stub)]
#[kani::unwind(34)]
fn c07_append_third_party_checks_key_and_signature() {
    use crate::crypto::kh_oracle as oracle;
    let t = token(1);
    let expected_key = any_public(false);
    let key_bytes: [u8; 32] = kani::any();
    let sig_bytes: [u8; 3] = kani::any();
    let response = ThirdPartyBlock(schema::ThirdPartyBlockContents {
        payload: Vec::new(),
        external_signature: schema::ExternalSignature {
            signature: sig_bytes.to_vec(),
            public_key: schema::PublicKey { algorithm: 0, key: key_bytes.to_vec() },
        },
    });
    let next = crate::crypto::kh_keys::any_keypair(false);
    oracle::switch_on();
    let r = t.append_third_party_with_keypair(expected_key, response, next);
    let accepted = r.is_ok();
    kani::cover!(accepted, "witness: a third-party block was attached");
    kani::cover!(!accepted, "witness: a third-party block was refused");
    if accepted {
        // exactly one verification: the external signature, under the expected key, over X
        assert!(oracle::n_verify() == 1 && oracle::verify_query(0).accepted, "a third-party block is attached without its external signature being accepted");
        let q = oracle::verify_query(0);
        assert!(q.key == expected_key, "the external signature is not verified under the key the caller expects");
        let prev = t.container.blocks[0].signature.to_bytes();
        let mut x = b"\0EXTERNAL\0\0VERSION\0".to_vec();
        x.extend_from_slice(&1u32.to_le_bytes());
        x.extend_from_slice(b"\0PAYLOAD\0");
        x.extend_from_slice(b"\0PREVSIG\0");
        x.extend_from_slice(prev);
        assert!(q.msg == x && q.sig == sig_bytes.to_vec(), "the external signature does not cover payload + signature of the token's last block");
        assert!(oracle::n_sign() == 1, "attaching a third-party block signs more or less than one message");
    } else {
        assert!(oracle::n_sign() == 0, "a refused third-party block was signed into the chain");
    }
    std::mem::forget(r);
    std::mem::forget(t);
}
