// dev probes that established the rules of DESIGN.md section 1 (not part of any tier)
use super::*;
use crate::datalog::{SymbolTable, TemporarySymbolTable};

#[kani::proof]
#[kani::stub(regex::Regex::new, crate::kh_support::regex_new_stub)]
#[kani::stub(regex::Regex::is_match, crate::kh_support::regex_is_match_stub)]
#[kani::unwind(3)]
fn smoke_binary_add() {
    let symbols = SymbolTable::new();
    let mut tmp = TemporarySymbolTable::new(&symbols);
    let ext = HashMap::new();
    let a: i64 = kani::any();
    let b: i64 = kani::any();
    let r = Binary::Add.evaluate(Term::Integer(a), Term::Integer(b), &mut tmp, &ext);
    let wide = a as i128 + b as i128;
    let ok = match &r {
        Ok(Term::Integer(v)) => wide == *v as i128,
        Err(error::Expression::Overflow) => wide > i64::MAX as i128 || wide < i64::MIN as i128,
        _ => false,
    };
    kani::cover!(r.is_ok());
    std::mem::forget(r);
    std::mem::forget(tmp);
    std::mem::forget(ext);
    assert!(ok);
}

#[kani::proof]
#[kani::unwind(3)]
fn micro3_ref_in_vec() {
    let t = Term::Array(vec![Term::Integer(kani::any())]);
    let mut out: Vec<&Term> = Vec::new();
    out.push(&t);
    let c = out[0].clone();
    drop(c);
}
#[kani::proof]
#[kani::unwind(3)]
fn micro3_ref_in_vec_cap1() {
    let t = Term::Array(vec![Term::Integer(kani::any())]);
    let mut out: Vec<&Term> = Vec::with_capacity(1);
    out.push(&t);
    let c = out[0].clone();
    drop(c);
}
#[kani::proof]
#[kani::unwind(3)]
fn micro3_nested_in_vec() {
    let mut st: Vec<Term> = Vec::new();
    st.push(Term::Array(vec![Term::Integer(kani::any())]));
    let c = st.pop();
    drop(c);
}
#[kani::proof]
#[kani::unwind(3)]
fn micro3_nested_two() {
    let mut st: Vec<Term> = Vec::new();
    st.push(Term::Array(vec![Term::Integer(kani::any())]));
    st.push(Term::Integer(kani::any()));
    let c = st.pop();
    let d = st.pop();
    drop(c);
    drop(d);
}
#[kani::proof]
#[kani::unwind(3)]
fn micro4_ref_into_iter() {
    let t = Term::Array(vec![Term::Integer(kani::any())]);
    let mut out: Vec<&Term> = Vec::new();
    out.push(&t);
    let mut it = out.into_iter();
    let c = it.next().unwrap().clone();
    drop(c);
    std::mem::forget(it);
}
#[kani::proof]
#[kani::unwind(3)]
fn micro4_ref_into_iter_cloned_collect() {
    let t = Term::Integer(kani::any());
    let mut out: Vec<&Term> = Vec::new();
    out.push(&t);
    let v: Vec<Term> = out.into_iter().cloned().collect();
    std::mem::forget(v);
}
#[kani::proof]
#[kani::unwind(3)]
fn micro4_set_intersection() {
    let mut a = crate::vstd::BTreeSet::new();
    a.insert(Term::Integer(7));
    let mut b = crate::vstd::BTreeSet::new();
    b.insert(Term::Integer(7));
    let r: crate::vstd::BTreeSet<Term> = a.intersection(&b).cloned().collect();
    std::mem::forget(r);
    std::mem::forget(a);
    std::mem::forget(b);
}
#[kani::proof]
#[kani::unwind(3)]
fn micro5_cmp_fold() {
    let a = Term::Integer(7);
    let b = Term::Integer(7);
    let mut v: Vec<&Term> = Vec::new();
    if a.cmp(&b) == std::cmp::Ordering::Equal {
        v.push(&a);
    }
    let c = v[0].clone();
    drop(c);
}
#[kani::proof]
#[kani::unwind(3)]
fn micro5_eq_fold() {
    let a = Term::Integer(7);
    let b = Term::Integer(7);
    let mut v: Vec<&Term> = Vec::new();
    if a == b {
        v.push(&a);
    }
    let c = v[0].clone();
    drop(c);
}
#[kani::proof]
#[kani::unwind(3)]
fn micro5_i64_cmp_fold() {
    let a = Term::Integer(7);
    let mut v: Vec<&Term> = Vec::new();
    if 7i64.cmp(&7i64) == std::cmp::Ordering::Equal {
        v.push(&a);
    }
    let c = v[0].clone();
    drop(c);
}
#[kani::proof]
#[kani::unwind(3)]
fn micro6_contains_fold() {
    let mut a = crate::vstd::BTreeSet::new();
    a.insert(Term::Integer(7));
    let t = Term::Integer(7);
    let mut v: Vec<&Term> = Vec::new();
    if a.contains(&t) {
        v.push(&t);
    }
    let c = v[0].clone();
    drop(c);
    std::mem::forget(a);
}
#[kani::proof]
#[kani::unwind(3)]
fn micro6_iter_first_fold() {
    let mut a = crate::vstd::BTreeSet::new();
    a.insert(Term::Integer(7));
    let x = a.iter().next().unwrap();
    let c = x.clone();
    drop(c);
    std::mem::forget(a);
}
#[kani::proof]
#[kani::unwind(3)]
fn micro6_inter_iter() {
    let mut a = crate::vstd::BTreeSet::new();
    a.insert(Term::Integer(7));
    let mut b = crate::vstd::BTreeSet::new();
    b.insert(Term::Integer(7));
    let mut it = a.intersection(&b);
    let c = it.next().unwrap().clone();
    drop(c);
    std::mem::forget(it);
    std::mem::forget(a);
    std::mem::forget(b);
}
#[kani::proof]
#[kani::unwind(3)]
fn micro6_inter_cloned_vec() {
    let mut a = crate::vstd::BTreeSet::new();
    a.insert(Term::Integer(7));
    let mut b = crate::vstd::BTreeSet::new();
    b.insert(Term::Integer(7));
    let r: Vec<Term> = a.intersection(&b).cloned().collect();
    std::mem::forget(r);
    std::mem::forget(a);
    std::mem::forget(b);
}
#[kani::proof]
#[kani::unwind(3)]
fn micro7_contains_guard() {
    let mut a = crate::vstd::BTreeSet::new();
    a.insert(Term::Integer(7));
    let t = Term::Integer(7);
    let mut marker: u32 = 0;
    if a.contains(&t) {
        marker = 0xabcd;
    }
    assert!(marker == 0xabcd);
    std::mem::forget(a);
}
#[kani::proof]
#[kani::unwind(3)]
fn micro8_clone_empty_vec() {
    let v: Vec<Term> = Vec::new();
    let w = v.clone();
    assert!(w.is_empty());
}
