//@ owner: biscuit-capi/src/lib.rs
//! C19-K1/K2: the C entry points with null handles report InvalidArgument and return their
//! sentinel without aborting; key serialisation into the documented 32-byte buffer.
use super::*;

fn last_is_invalid_argument() -> bool {
    matches!(error_kind(), ErrorKind::InvalidArgument)
}

#[kani::proof]
#[kani::unwind(4)]
fn c19_null_handles_sizes_and_counts() {
    let sel: u8 = kani::any();
    let idx: u32 = kani::any();
    let mut buf = [0u8; 32];
    let ok = unsafe {
        match sel {
            0 => biscuit_block_count(None) == 0,
            1 => biscuit_serialized_size(None) == 0,
            2 => biscuit_sealed_size(None) == 0,
            3 => biscuit_serialize(None, buf.as_mut_ptr()) == 0,
            4 => biscuit_serialize_sealed(None, buf.as_mut_ptr()) == 0,
            5 => key_pair_serialize(None, buf.as_mut_ptr()) == 0,
            6 => public_key_serialize(None, buf.as_mut_ptr()) == 0,
            7 => key_pair_public(None).is_none(),
            8 => biscuit_block_context(None, idx).is_null(),
            9 => biscuit_print(None).is_null(),
            10 => biscuit_print_block_source(None, idx).is_null(),
            11 => !authorizer_authorize(None),
            12 => authorizer_print(None).is_null(),
            13 => biscuit_authorizer(None).is_none(),
            _ => biscuit_append_block(None, None, None).is_none(),
        }
    };
    kani::cover!(ok, "witness: a null handle was reported");
    assert!(ok, "a C entry point does not return its error value for a null handle");
    assert!(last_is_invalid_argument(), "a null handle is not reported as InvalidArgument through the error channel");
}

fn key_bytes(p256: bool) {
    biscuit_auth::kh_support::capi_oracle_on();
    let k = PublicKey(biscuit_auth::kh_support::capi_any_public(p256));
    // the header documents a 32 byte buffer; two guard bytes detect writes past it
    let mut buf = [0u8; 34];
    buf[32] = 0xAA;
    buf[33] = 0x55;
    let n = unsafe { public_key_serialize(Some(&k), buf.as_mut_ptr()) };
    kani::cover!(n == 32, "witness: key written");
    assert!(n == 32, "public_key_serialize does not announce 32 bytes");
    assert!(buf[32] == 0xAA && buf[33] == 0x55, "public_key_serialize writes past the documented buffer");
}
#[kani::proof]
#[kani::unwind(34)]
fn c19_public_key_serialize_ed25519() {
    key_bytes(false);
}
#[kani::proof]
#[kani::unwind(34)]
fn c19_public_key_serialize_secp256r1() {
    key_bytes(true);
}
