// attempt: Rule::validate_variables with symbolic variable ids: out of memory (HashSet<u32> model: removal at a symbolic index is a memmove of symbolic extent)

/// C05 (loader guard): a rule whose head holds a variable that no body predicate binds is
/// refused by `Rule::validate_variables`, every other rule is accepted
#[kani::proof]
#[kani::stub(alloc::fmt::format, crate::kh_support::fmt_format_stub)]
#[kani::unwind(5)]
fn c05_validate_head_variables() {
    let v: [u32; 4] = kani::any();
    let sel: u8 = kani::any();
    let (r, expected) = (
        Rule {
            head: Predicate { name: 10, terms: vec![Term::Variable(v[0]), Term::Integer(kani::any()), Term::Variable(v[1])] },
            body: vec![
                Predicate { name: 11, terms: vec![Term::Variable(v[2]), Term::Bool(kani::any())] },
                Predicate { name: 12, terms: vec![Term::Variable(v[3])] },
            ],
            expressions: Vec::new(),
            scopes: Vec::new(),
        },
        (v[0] == v[2] || v[0] == v[3]) && (v[1] == v[2] || v[1] == v[3]),
    );
    let _ = sel;
    let syms = SymbolTable::new();
    let res = r.validate_variables(&syms);
    let ok = res.is_ok();
    std::mem::forget(res);
    std::mem::forget(r);
    std::mem::forget(syms);
    kani::cover!(ok, "witness: a range-restricted rule is accepted");
    kani::cover!(!ok, "witness: a rule with a free head variable is refused");
    assert!(ok == expected, "head-variable check accepts a free head variable or refuses a bound one");
}
