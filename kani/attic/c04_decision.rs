//@ owner: biscuit-auth/src/datalog/mod.rs
//! C04-K2 (probe): check kinds over queries without body predicates: `check if <b>`,
//! `check all <b>`, `reject if <b>` evaluated by the real query functions on an empty store.
use super::*;
use crate::datalog::expression::{Expression, Op};

fn literal_query(b: bool) -> Rule {
    Rule {
        head: Predicate { name: 10, terms: Vec::new() },
        body: Vec::new(),
        expressions: vec![Expression { ops: vec![Op::Value(Term::Bool(b))] }],
        scopes: Vec::new(),
    }
}

#[kani::proof]
#[kani::stub(regex::Regex::new, crate::kh_support::regex_new_stub)]
#[kani::stub(regex::Regex::is_match, crate::kh_support::regex_is_match_stub)]
#[kani::unwind(3)]
fn c04x_query_match_literal() {
    let w = World::new();
    let syms = SymbolTable::new();
    let b: bool = kani::any();
    let t = TrustedOrigins::default();
    let r = w.query_match(literal_query(b), 0, &t, &syms);
    let ok = matches!(r, Ok(x) if x == b);
    std::mem::forget(r);
    std::mem::forget(w);
    std::mem::forget(syms);
    kani::cover!(ok, "witness: query evaluated");
    assert!(ok, "check if <literal> does not evaluate to the literal");
}
