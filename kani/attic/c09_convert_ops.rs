// attempt: operator kinds through proto_expression_to_token_expression: no verdict in 600 s even for one concrete operator
// (schema::Op is an enum with heap-owning variants stored in a Vec: its tag is not kept constant by the symbolic executor)
#[kani::proof]
#[kani::stub(alloc::fmt::format, crate::kh_support::fmt_format_stub)]
#[kani::unwind(4)]
fn c09_convert_binary_kind_any_value() {
    let kind: i32 = kani::any();
    let ffi: Option<u64> = if kani::any() { Some(kani::any()) } else { None };
    let e = one_op(schema::op::Content::Binary(schema::OpBinary { kind, ffi_name: ffi }));
    let r = proto_expression_to_token_expression(&e);
    let known = kind >= 0 && kind <= 28;
    let expect_ok = known && ((kind == 28) == ffi.is_some());
    let ok = r.is_ok();
    kani::cover!(ok, "witness: a binary operator was decoded");
    kani::cover!(!ok, "witness: a malformed binary operator was refused");
    assert!(ok == expect_ok, "binary operator kind / extern name combination wrongly accepted or refused");
    std::mem::forget(r);
    std::mem::forget(e);
}

#[kani::proof]
#[kani::stub(alloc::fmt::format, crate::kh_support::fmt_format_stub)]
#[kani::unwind(4)]
fn c09_convert_unary_kind_any_value() {
    let kind: i32 = kani::any();
    let ffi: Option<u64> = if kani::any() { Some(kani::any()) } else { None };
    let e = one_op(schema::op::Content::Unary(schema::OpUnary { kind, ffi_name: ffi }));
    let r = proto_expression_to_token_expression(&e);
    let known = kind >= 0 && kind <= 4;
    let expect_ok = known && ((kind == 4) == ffi.is_some());
    let ok = r.is_ok();
    kani::cover!(ok, "witness: a unary operator was decoded");
    kani::cover!(!ok, "witness: a malformed unary operator was refused");
    assert!(ok == expect_ok, "unary operator kind / extern name combination wrongly accepted or refused");
    std::mem::forget(r);
    std::mem::forget(e);
}


/// every operator re-reads as itself: Datalog -> protobuf -> Datalog, one branch per operator
fn op_roundtrip(op: Op, expect_kind: i32, is_binary: bool) {
    let e = Expression { ops: vec![op] };
    let p = token_expression_to_proto_expression(&e);
    let kind_ok = match &p.ops[0].content {
        Some(schema::op::Content::Binary(b)) => is_binary && b.kind == expect_kind,
        Some(schema::op::Content::Unary(u)) => !is_binary && u.kind == expect_kind,
        _ => false,
    };
    assert!(kind_ok, "operator encoded with the wrong kind number");
    let back = proto_expression_to_token_expression(&p);
    let ok = matches!(&back, Ok(b) if b.ops.len() == 1 && b.ops[0] == e.ops[0]);
    kani::cover!(ok, "witness: operator restored");
    assert!(ok, "an operator does not survive the wire mapping");
    std::mem::forget(back);
    std::mem::forget(p);
    std::mem::forget(e);
}
macro_rules! ops_rt {
    ($name:ident, $( $i:expr => $op:expr ),* ) => {
        #[kani::proof]
        #[kani::stub(alloc::fmt::format, crate::kh_support::fmt_format_stub)]
        #[kani::unwind(4)]
        fn $name() {
            let sel: i32 = kani::any();
            match sel {
                $( $i => op_roundtrip(Op::Binary($op), $i, true), )*
                _ => {}
            }
        }
    };
}
ops_rt!(c09_convert_binary_roundtrip_00_09, 0 => Binary::LessThan, 1 => Binary::GreaterThan, 2 => Binary::LessOrEqual, 3 => Binary::GreaterOrEqual, 4 => Binary::Equal, 5 => Binary::Contains, 6 => Binary::Prefix, 7 => Binary::Suffix, 8 => Binary::Regex, 9 => Binary::Add);
ops_rt!(c09_convert_binary_roundtrip_10_19, 10 => Binary::Sub, 11 => Binary::Mul, 12 => Binary::Div, 13 => Binary::And, 14 => Binary::Or, 15 => Binary::Intersection, 16 => Binary::Union, 17 => Binary::BitwiseAnd, 18 => Binary::BitwiseOr, 19 => Binary::BitwiseXor);
ops_rt!(c09_convert_binary_roundtrip_20_28, 20 => Binary::NotEqual, 21 => Binary::HeterogeneousEqual, 22 => Binary::HeterogeneousNotEqual, 23 => Binary::LazyAnd, 24 => Binary::LazyOr, 25 => Binary::All, 26 => Binary::Any, 27 => Binary::Get, 28 => Binary::Ffi(kani::any()));
#[kani::proof]
#[kani::stub(alloc::fmt::format, crate::kh_support::fmt_format_stub)]
#[kani::unwind(4)]
fn c09_convert_unary_roundtrip() {
    let sel: i32 = kani::any();
    match sel {
        0 => op_roundtrip(Op::Unary(Unary::Negate), 0, false),
        1 => op_roundtrip(Op::Unary(Unary::Parens), 1, false),
        2 => op_roundtrip(Op::Unary(Unary::Length), 2, false),
        3 => op_roundtrip(Op::Unary(Unary::TypeOf), 3, false),
        4 => op_roundtrip(Op::Unary(Unary::Ffi(kani::any())), 4, false),
        _ => {}
    }
}
