//@ owner: biscuit-auth/src/token/builder/fact.rs
//! C20 probe: parameter substitution in a fact.
use super::*;

#[kani::proof]
#[kani::stub(alloc::fmt::format, crate::kh_support::fmt_format_stub)]
#[kani::unwind(4)]
fn c20x_fact_set_integer() {
    let mut f = Fact::new("f".to_string(), vec![Term::Parameter("p".to_string())]);
    let v: i64 = kani::any();
    let r = f.set("p", Term::Integer(v));
    assert!(r.is_ok());
    assert!(f.validate().is_ok());
    f.apply_parameters();
    let ok = matches!(&f.predicate.terms[0], Term::Integer(x) if *x == v);
    kani::cover!(ok, "witness: parameter replaced");
    assert!(ok && f.predicate.terms.len() == 1, "parameter not replaced by exactly the bound value");
    std::mem::forget(f);
    std::mem::forget(r);
}
