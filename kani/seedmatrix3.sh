#!/bin/bash
# round-3 seeds against the checks (no native replay, to keep the matrix short)
export BV_MAX_REPLAYS=0
OUT=/verif/seeded/RESULTS.txt
run() { seed=$1; prop=$2; only=$3; if [ "$only" = "-" ]; then r=$(/verif/kani/seedtest.sh $seed $prop 2>&1 | grep SEEDTEST); else r=$(/verif/kani/seedtest.sh $seed $prop --only "$only" 2>&1 | grep SEEDTEST); fi; echo "$r only=$only" >> $OUT; }
run C04-r3m1 C04 'c03_load'
run C04-r3m2 C04 'c03_trust_scopes[12]|c04_scope_block1_rule1'
run C05-r3m1 C05 -
run C05-r3m2 C05 -
run C07-r3m1 C07 -
run C07-r3m2 C07 -
run C09-r3m1 C09 'c10_authorize_iterations'
run C09-r3m2 C09 -
run C13-r3m1 C13 -
run C13-r3m2 C13 'c13_block_translate'
run C15-r3m1 C15 'c01_walk_v0_v1ext'
run C15-r3m2 C15 'c15_revocation_identifiers_unverified'
echo DONE3 >> $OUT
