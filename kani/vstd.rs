//! `crate::vstd`: what biscuit-auth's `std::collections` imports are redirected to in the
//! solver workspace (DESIGN 2.3). Under the solver: Vec-backed models. Under native replay
//! (`cargo kani playback` builds with cfg(test)) and in any non-Kani build: the real std containers.
#[cfg(all(kani, not(test)))]
#[path = "vstd_model.rs"]
mod model;
#[cfg(all(kani, not(test)))]
pub use model::*;

#[cfg(not(all(kani, not(test))))]
pub use std::collections::{btree_map, btree_set, hash_map, hash_set, BTreeMap, BTreeSet, HashMap, HashSet};
#[cfg(not(all(kani, not(test))))]
pub type BitSet = std::collections::BTreeSet<usize>;
