//! `crate::vstd`: what biscuit-auth's `std::collections` imports are redirected to in the
//! solver workspace (DESIGN 2.3). Under the solver: Vec-backed models. Under native replay
//! (`--cfg bv_native`) and in any non-Kani build: the real std containers.
#[cfg(all(kani, not(bv_native)))]
#[path = "vstd_model.rs"]
mod model;
#[cfg(all(kani, not(bv_native)))]
pub use model::*;

#[cfg(not(all(kani, not(bv_native))))]
pub use std::collections::{btree_map, btree_set, hash_map, hash_set, BTreeMap, BTreeSet, HashMap, HashSet};
#[cfg(not(all(kani, not(bv_native))))]
pub type BitSet = std::collections::BTreeSet<usize>;
