#!/bin/bash
# every seeded change against the check of the property it breaks. To keep the matrix affordable
# each run is restricted (--only) to the harnesses of the quick tier that exercise the changed
# function; "-" = whole quick tier.
export BV_MAX_REPLAYS=1
OUT=/verif/seeded/RESULTS.txt; : > $OUT
run() { seed=$1; prop=$2; only=$3; if [ "$only" = "-" ]; then r=$(/verif/kani/seedtest.sh $seed $prop 2>&1 | grep SEEDTEST); else r=$(/verif/kani/seedtest.sh $seed $prop --only "$only" 2>&1 | grep SEEDTEST); fi; echo "$r only=$only" >> $OUT; }
run C01-m1 C17 'signature_length'
run C01-m2 C01 'c01_walk_(auth_v1|v0_v1ext)$'
run C02-m1 C02 'c02_append_after_block_v0_v0'
run C02-m2 C02 'two_blocks'
run C03-m1 C03 'c03_trust_scopes[12]'
run C03-m1 C04 'c04_scope_block1_rule1'
run C03-m2 C03 -
run C04-m1 C04 -
run C04-m2 C05 'origin|integer'
run C05-m1 C05 'arity'
run C05-m2 C05 'origin'
run C06-m1 C06 'c06_bin_div_int'
run C06-m2 C06 'c06_bin_add_int|c06_un_negate'
run C07-m1 C07 'c01_walk_v0_v1ext|c02_append_third_party'
run C07-m2 C07 'c07_'
run C08-m1 C08 'c01_walk_auth_v1_sealed'
run C08-m2 C08 'c08_sealed'
run C09-m1 C06 'c06_bin_div_int'
run C09-m2 C17 'p256'
run C10-m1 C10 -
run C10-m2 C10 'cumulative'
run C13-m1 C13 -
run C13-m2 C13 -
run C15-m1 C17 'signature_length'
run C15-m2 C15 'c01_walk_v1_v1'
run C16-m1 C16 'sigversion'
run C16-m2b C16 'c16_term_null|c16_unary'
run C17-m1 C17 'signature'
run C17-m2 C17 'proto'
echo DONE >> $OUT
