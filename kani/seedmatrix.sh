#!/bin/bash
# runs every seeded change against the quick check of the property it breaks (and close relatives)
export BV_MAX_REPLAYS=1
OUT=/verif/seeded/RESULTS.txt; : > $OUT
run() { seed=$1; shift; for p in "$@"; do r=$(/verif/kani/seedtest.sh $seed $p 2>&1 | grep SEEDTEST); echo "$r" >> $OUT; done; }
run C01-m1 C01 C17
run C01-m2 C01
run C02-m1 C02
run C02-m2 C02
run C03-m1 C03 C04
run C03-m2 C03
run C04-m1 C04
run C04-m2 C04 C05
run C05-m1 C05
run C05-m2 C05
run C06-m1 C06
run C06-m2 C06
run C07-m1 C07
run C07-m2 C07 C03
run C08-m1 C08
run C08-m2 C08
run C09-m1 C09 C06
run C09-m2 C09 C17
run C10-m1 C10
run C10-m2 C10
run C13-m1 C13
run C13-m2 C13
run C15-m1 C15 C17
run C15-m2 C15
run C16-m1 C16
run C16-m2b C16
run C17-m1 C17
run C17-m2 C17
echo DONE >> $OUT
