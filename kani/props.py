"""Per-property configuration of the checks: which harnesses form the quick / thorough tier,
caps, what is encoded, bounds, what is outside the claim. Read by /verif/check."""

COMMON_ASSUMPTIONS = [
    "Kani 0.68 / CBMC 6.11 / cadical translate and decide the compiled MIR of biscuit-auth correctly (trusted tool chain)",
    "std::collections::{BTreeSet,BTreeMap,HashSet,HashMap} are replaced, in the solver's copy of biscuit-auth only, by the Vec-backed models of /verif/kani/vstd_model.rs "
    "(same API subset, sorted/insertion order); Origin's block-id set by a 64-bit mask (tokens of <= 63 blocks)",
    "regex::Regex::{new,is_match} are stubbed (new -> Err, is_match -> arbitrary bool): regular-expression semantics are outside every claim",
    "the bound of each harness (shapes, lengths, unwind depth) is part of the claim; unwinding assertions are on, a bound that is too small is reported as inconclusive",
]

_SHAPES = ['var', 'int', 'str', 'date', 'bytes0', 'bytes1', 'bool', 'set0', 'set1', 'null', 'arr0', 'arr1', 'map0', 'map1']

PROPS = {
    'C06': {
        'crate': 'biscuit-auth',
        # quick: for every binary operator the rows of its "home" left-hand types + one foreign type
        'quick': [
            r'c06_bin_(lt|ge)_(int|date)', r'c06_bin_(eq|hne)_(int|set1|null)', r'c06_bin_heq_int', r'c06_bin_ne_int',
            r'c06_bin_contains_(set1|arr1)', r'c06_bin_prefix_arr1',
            r'c06_bin_(add|sub|mul|div)_int', r'c06_bin_(and|or)_bool', r'c06_bin_union_set0',
            r'c06_bin_bit(and|xor)_int', r'c06_bin_lazyor_bool', r'c06_bin_get_(arr1|map1)',
            r'c06_un_(negate|length)', r'c06_mul_overflow_boundary', r'c06_div_value_64by8',
            r'c06e_seq_len0to2_[abc]', r'c06e_seq_len3_(00|lt)',
        ],
        'thorough': [r'c06_bin_(?!ffi_(str|var)$)\w+', r'c06_un_\w+', r'c06_mul_value_32x8', r'c06_ffi_unknown_symbol', r'c06e_seq_\w+'],
        'per_harness': {r'c06_un_typeof': {'unwindset': 'memcmp.0:20'}, r'c06e_\w+': {'cap': 900}},
        'cap': {'quick': 300, 'thorough': 900},
        'functions': ['datalog::expression::Expression::evaluate (closure-free sequences)', 'datalog::expression::Binary::evaluate', 'datalog::expression::Unary::evaluate',
                      'datalog::symbol::TemporarySymbolTable::{new,get_symbol,insert}', 'derived Clone/Drop/Ord/PartialEq of datalog::Term'],
        'bounds': 'every (binary operator x left shape x right shape) cell over 14 shapes (10 term types; collections with 0 and 1 '
                  'integer element); integer/date/bool payloads symbolic at full width (i64/u64); unwind 3; '
                  'recursion through Term bounded at 2 activations (terms one level deep); Expression::evaluate against a reference stack machine: every op sequence of length 0..2 over '
                  '{int value, bool value, negate, sub} and every sequence of length 3 over {int value, bool value, sub} plus three less-than shapes, payloads symbolic (i64 / bool), unwind 5',
        'out': 'in Expression::evaluate: closures and laziness (&&, ||, all, any, shadowing), variable lookups in the bindings map, sequences of 4 and more operations, a unary operator in third position (no verdict within 300-600 s / 10 GB); string operator results on known symbols, set x set union/intersection of two non-empty sets, '
               'lookups (get/contains) with symbolic keys, 64 x 64 bit products, nested collections, registered extern functions, regex semantics; '
               'the two rows (extern call, left operand string / variable) are not run: no verdict in 600 s for no reason I could isolate',
    },
    'C16': {
        'crate': 'biscuit-auth',
        'quick': [r'c16_term_(int|null|set_null|array|map|set_int)', r'c16_binary_\w+', r'c16_unary_and_closure', r'c16_check_kinds_and_scopes', r'c16_sigversion_\w+', r'c02_new_signature_version', r'c02_append_datalog_block_v1_v0'],
        'per_harness': {r'c02_\w+': {'unwindset': 'memcmp.0:200'}},
        'thorough': [r'c16_\w+'],
        'cap': {'quick': 300, 'thorough': 900},
        'functions': ['datalog::get_schema_version', 'datalog::SchemaVersion::{version,check_compatibility}',
                      'datalog::{contains_v3_1_op,contains_v3_3_op,contains_v3_3_predicate,contains_v3_3_term}'],
        'bounds': 'one feature per block: 14 term shapes (each type; set/array/map with 0 or 1 element; null nested in a set) at 6 sites '
                  '(fact, rule head, rule body, check-query body, rule expression, check expression); all 29 binary and 5 unary operators and a closure '
                  'at 2 sites; 3 check kinds; scopes on block / rule / check query; feature in the 2nd fact/rule/check/query; declared version: any u32',
        'out': 'the builders (BlockBuilder::build) calling the detector with the right arguments; blocks with more than 2 items per list; nesting deeper than one level',
    },
    'C17': {
        'crate': 'biscuit-auth',
        'quick': [r'c17_\w+'],
        'thorough': [],
        'cap': {'quick': 300, 'thorough': 900},
        'functions': ['crypto::ed25519::{KeyPair,PrivateKey,PublicKey}::from_bytes', 'crypto::p256::{KeyPair,PrivateKey}::from_bytes',
                      'crypto::ed25519::PublicKey::verify_signature', 'crypto::PublicKey::from_proto'],
        'bounds': 'key byte strings of 13 wrong lengths in 0..=40 (contents symbolic) per decoder; ed25519 signatures of 0,1,32,63,65,66,70 bytes and of 64 bytes '
                  '(contents symbolic, primitive stubbed Ok/Err); protobuf algorithm tag any i32',
        'stubs': ['ed25519_dalek::SigningKey::from_bytes', 'ed25519_dalek::VerifyingKey::from_bytes', 'ed25519_dalek::VerifyingKey::verify_strict', 'alloc::fmt::format'],
        'out': 'encoding round trips (hex, PEM, DER, PKCS#8), point validation, "a private key yields the same public key", the signature primitives themselves '
               '(inside ed25519-dalek / p256), secp256r1 public-key and signature decoding (SEC1 / DER parsers of the p256 crate)',
        'level_text': 'Guards and dispatch only: bounded symbolic execution of the length / algorithm checks in front of the cryptographic decoders.',
    },
    'C03': {
        'crate': 'biscuit-auth',
        'quick': [r'c03_trust_(scopes[0-3]|default)', r'c03_load_\w+'],
        'thorough': [r'c03_trust_scopes4'],
        'per_harness': {r'c03_load_\w+': {'unwindset': 'memcmp.0:40'}},
        'cap': {'quick': 400, 'thorough': 1200},
        'functions': ['datalog::origin::TrustedOrigins::{default,from_scopes,contains}', 'datalog::origin::Origin::{insert,is_superset}', 'token::builder::authorizer::load_and_translate_block (block-level scopes)', 'token::builder::Scope::{convert,convert_from}', 'token::public_keys::PublicKeys::{insert,get_key}'],
        'bounds': 'scope lists of length 0..3 (thorough: 4) over {authority, previous, key 0..2}; current block in 0..=5 or the authorizer; 3 keys signing 1, 2 and 0 blocks (ids 1..=5, symbolic); '
                  'probe origins of one and two block ids; unwind 9; loading of a first-party and of a third-party block that carries one block-level key scope, three distinct symbolic key objects',
        'out': 'the end-to-end comparison authorize(token) vs authorize(token + block); provenance of rule application (Rule::apply) and the visibility filter; loading of facts, rules and checks of a block (symbol translation: strings)',
        'level_text': 'Kernel lemma of the attenuation argument: bounded symbolic execution of the trust computation against an independent bit-mask specification; the composition to whole authorizations is an argument in DESIGN.md, not a solver result.',
    },
    'C10': {
        'crate': 'biscuit-auth',
        'quick': [r'c10_\w+'],
        'thorough': [],
        'cap': {'quick': 400, 'thorough': 1200},
        'functions': ['token::authorizer::Authorizer::{run,authorize,authorize_with_limits,authorize_inner}', 'datalog::World::run_with_limits (rule-free store)', 'time::Instant arithmetic'],
        'bounds': 'empty authorizer (no facts, rules, checks, policies); iterations spent, iteration/fact budgets: any u64; time budget and time spent: any Duration; clock: arbitrary non-decreasing instants; World::run_with_limits on a store of two facts and no rule for every limit triple',
        'stubs': ['crate::time::Instant::now (arbitrary non-decreasing instants)', 'alloc::fmt::format'],
        'out': 'accounting inside World::run_with_limits when rules fire (needs Rule::apply), query / query_all (builder rules: strings), promptness',
    },
    'C01': {
        'crate': 'biscuit-auth',
        'quick': [r'c01_walk_(auth_v0|auth_v1|auth_v2_refused|auth_v1_sealed|v0_v0|v1_v1|v0_v1ext|v0_v1ext_sealed)'],
        'thorough': [r'c01_\w+'],
        'cap': {'quick': 600, 'thorough': 1800},
        'per_harness': {r'c01_\w+': {'unwindset': 'memcmp.0:200'}},
        'jobs': 8, 'mem_gb': 16,
        'functions': ['format::SerializedBiscuit::verify_inner', 'crypto::{verify_authority_block_signature,verify_block_signature,verify_external_signature}',
                      'crypto::generate_*_signature_payload_{v0,v1}', 'crypto::generate_seal_signature_payload_v0'],
        'bounds': 'tokens of 1..3 blocks; signature versions 0, 1 and 2 (unknown); external signature present/absent; sealed / unsealed; ed25519 and secp256r1 key objects as next keys; block payloads of 2 bytes, signatures of 3 bytes, all bytes and all key objects symbolic; every answer of the signature primitive symbolic',
        'stubs': ['crypto::PublicKey::verify_signature -> oracle (Ok/Err nondeterministically, query recorded)', 'ed25519 PrivateKey::public -> uninterpreted function', 'p256 PublicKey::to_bytes -> deterministic stand-in', 'alloc::fmt::format'],
        'out': 'unforgeability of the primitives (EUF-CMA, assumed); protobuf decoding of the envelope (SerializedBiscuit::deserialize), byte-level corruption, re-encodings; collisions between v0 payloads of different shapes',
        'level_text': 'Verification obligations: bounded symbolic execution of the whole verification walk with the signature primitive replaced by a recording oracle; acceptance implies exactly the triples (key, specified payload, signature) of the specification were accepted by the primitive.',
    },
    'C02': {
        'crate': 'biscuit-auth',
        'quick': [r'c02_append_(after_block_v0_v0|after_block_v0_v1|third_party_after_block|after_two_blocks_v1|datalog_block_v0_v0)', r'c02_seal_after_block', r'c02_seal_after_third_party_block', r'c02_new_token_v[01]', r'c02_to_proto_fields', r'c02_new_signature_version', r'c02_append_datalog_block_v1_v0'],
        'thorough': [r'c02_\w+'],
        'cap': {'quick': 600, 'thorough': 1800},
        'per_harness': {r'c0[278]x?_\w+': {'unwindset': 'memcmp.0:200'}},
        'jobs': 4, 'mem_gb': 24,
        'functions': ['format::SerializedBiscuit::{new,new_inner,append,append_serialized,seal,last_block,to_proto}', 'crypto::sign_authority_block', 'format::convert::token_block_to_proto_block + prost encoding (empty blocks)', 'format::block_signature_version', 'crypto::{sign_block,generate_block_signature_payload_v0,generate_block_signature_payload_v1,generate_seal_signature_payload_v0}', 'crypto::TokenNext::keypair'],
        'bounds': 'containers of 1..2 blocks (signature versions 0/1, last block first- or third-party for seal), one appended block (first- or third-party, ed25519 or secp256r1 next key, ed25519 or secp256r1 proof secret) or one seal; payloads 2 bytes, signatures 3 bytes, all bytes / key objects / signatures returned by the primitive symbolic',
        'stubs': ['crypto::KeyPair::sign -> oracle (symbolic signature, query recorded)', 'ed25519 public-key derivation -> uninterpreted function', 'p256 PublicKey::to_bytes -> stand-in', 'alloc::fmt::format'],
        'out': 'the real signatures; non-empty Datalog blocks (only empty blocks go through token::Block -> protobuf here); byte-exact protobuf round trips, base64, UnverifiedBiscuit; together with C01 (verification demands the same specified payloads) this gives "what the API signs is what verification accepts" for these operations only',
        'level_text': 'Sign/verify symmetry for the container operations: bounded symbolic execution with the signing primitive replaced by a recording oracle; the signed message equals an independent re-implementation of the specified layout.',
    },
    'C08': {
        'crate': 'biscuit-auth',
        'quick': [r'c08_\w+', r'c02_seal_\w+', r'c01_walk_(auth_v1_sealed|v1_v1_sealed)'],
        'thorough': [r'c01_walk_v1_v1_v1_sealed_p256'],
        'cap': {'quick': 600, 'thorough': 1800},
        'per_harness': {r'c0[1278]_\w+': {'unwindset': 'memcmp.0:200'}},
        'functions': ['format::SerializedBiscuit::{seal,append_serialized,verify_inner}', 'token::third_party::ThirdPartyRequest::from_container', 'crypto::TokenNext::{keypair,is_sealed}'],
        'bounds': 'sealed containers of 1..2 blocks, and sealed Biscuit / UnverifiedBiscuit objects of 2 blocks: every extension (append, re-seal, third-party request, key pair extraction) is refused before anything is signed; seal keeps blocks, signatures and root key id; a sealed token verifies only if the final signature was accepted under the last next key over (payload, algorithm, next key, signature) of the last block',
        'stubs': ['signature oracle', 'alloc::fmt::format'],
        'out': '"authorizes exactly like the unsealed one" end to end; serialization round trips; the Biscuit / UnverifiedBiscuit append paths (Datalog block builders); a successful Biscuit::seal (symbol table kept) - only the refusals of the wrappers are decided',
    },
    'C15': {
        'crate': 'biscuit-auth',
        'quick': [r'c15_\w+', r'c02_append_(after_block_v0_v1|third_party_after_block)', r'c02_seal_after_block', r'c01_walk_(v1_v1|v0_v1ext)'],
        'thorough': [r'c02_\w+', r'c01_walk_\w+'],
        'cap': {'quick': 600, 'thorough': 1800},
        'per_harness': {r'c0[1278]_\w+': {'unwindset': 'memcmp.0:200'}},
        'functions': ['token::Biscuit::revocation_identifiers', 'token::unverified::UnverifiedBiscuit::revocation_identifiers', 'format::SerializedBiscuit::{append_serialized,seal,verify_inner}', 'crypto::generate_block_signature_payload_v1'],
        'bounds': 'as C01 / C02: append and seal keep every earlier signature bit-identical; every signature but the last is bound into its successor\'s version-1 payload or into the seal',
        'stubs': ['signature oracle', 'alloc::fmt::format'],
        'out': 'uniqueness of identifiers (randomness of next keys), strictness of ed25519 verification, malleability of ECDSA signatures (F12 in DESIGN.md: a high-s re-encoding of the last signature of a secp256r1-signed token changes its identifier - needs the curve order, outside the solver\'s reach); revocation_identifiers() accessors',
        'level_text': 'Glue only: stability of stored signatures under append/seal and their binding into the successor payload, by bounded symbolic execution with the signature oracle.',
    },
    'C07': {
        'crate': 'biscuit-auth',
        'quick': [r'c07_\w+', r'c03_load_third_party_block_scope', r'c01_walk_(v0_v1ext|v0_v0ext_legacy|v0_v1ext_sealed)', r'c02_append_third_party_\w+', r'c02_seal_after_third_party_block'],
        'thorough': [r'c01_walk_v0_v1ext_v1'],
        'cap': {'quick': 600, 'thorough': 1800},
        'per_harness': {r'c0[1278]_\w+': {'unwindset': 'memcmp.0:200'}, r'c03_load_\w+': {'unwindset': 'memcmp.0:40'}},
        'functions': ['crypto::{verify_block_signature,verify_external_signature,generate_external_signature_payload_v1}', 'token::third_party::ThirdPartyRequest::from_container', 'format::SerializedBiscuit::append_serialized'],
        'bounds': 'as C01 / C02 for blocks carrying an external signature: acceptance requires the stated external key to accept (payload + signature of the actual previous block, version 1); the request carries exactly the last signature; the token-level signature of a third-party block covers the external signature bytes',
        'stubs': ['signature oracle', 'alloc::fmt::format'],
        'out': 'symbol / public-key table isolation of third-party blocks, create_block and append_third_party (protobuf payloads), trust through key scopes (C03 kernel), request/response byte manipulation',
    },
    'C05': {
        'crate': 'biscuit-auth',
        'quick': [r'c05_\w+'],
        'thorough': [],
        'cap': {'quick': 400, 'thorough': 1200},
        'functions': ['datalog::match_preds', 'datalog::origin::Origin::{insert,union,is_superset}'],
        'bounds': 'unification of one rule predicate with one fact predicate: every pair of term types (10 x 10, except two collections of the same kind) with symbolic names and payloads, arities 0..2; '
                  'origin sets over block ids 0..5 and the authorizer id (64-bit mask model)',
        'out': 'the immediate-consequence operator itself (Rule::apply / CombineIt), the fixpoint loop (World::run_with_limits), order independence, completeness of the iteration: '
               'symbolic execution of the join iterator did not finish (boxed iterator chains, per-binding hash maps of enum values; see DESIGN.md C05) - only the unification and provenance kernels are decided',
        'level_text': 'Kernel only (unification of a predicate with a fact; union of origin sets): bounded symbolic execution against an independent specification. The least-fixpoint claim itself is NOT decided by this check.',
    },
    'C09': {
        'crate': 'biscuit-auth',
        'quick': [r'c09_\w+', r'c10_authorize_(iterations_budget|time_budget_max)'],
        'thorough': [],
        'cap': {'quick': 600, 'thorough': 1800},
        'per_harness': {r'c09_\w+': {'unwindset': 'memcmp.0:40'}},
        'functions': ['token::Biscuit::{block,block_version,block_symbols,block_external_key}', 'token::unverified::UnverifiedBiscuit::block', 'format::convert::v2::{proto_scope_to_token_scope,proto_id_to_token_term} and their inverses'],
        'bounds': 'tokens of 1 and 2 blocks (empty blocks, declared version 3..6); index 0, 1, 2, usize::MAX and every index > block count + 1 symbolically; wire converters: scope tag any i32 / key id any i64, scalar terms with any payload, two-element sets of every admissible / inadmissible kind pair',
        'stubs': ['alloc::fmt::format', 'zeroize::optimization_barrier'],
        'out': 'arbitrary byte strings into the protobuf / base64 / PEM / Datalog parsers, printing, adversarial block contents (out-of-range symbol and key ids), hangs, deep nesting: only the index arithmetic of the block accessors is decided; evaluation totality is C06, budget arithmetic C10, key/signature length guards C17',
        'level_text': 'Accessor index arithmetic only: bounded symbolic execution of the block accessors for every index on small directly built tokens.',
    },
    'C13': {
        'crate': 'biscuit-auth',
        'quick': [r'c13_\w+'],
        'thorough': [],
        'cap': {'quick': 600, 'thorough': 1800},
        'per_harness': {r'c13_\w+': {'unwindset': 'memcmp.0:40'}},
        'functions': ['token::authorizer::Authorizer::snapshot (empty authorizer)', 'token::block::Block::translate (block-level scopes)', 'token::authorizer::snapshot::{authorizer_origin_to_proto_origin,proto_origin_to_authorizer_origin}'],
        'bounds': 'empty authorizer (no token, facts, rules, checks, policies); fact / iteration budgets and iteration count: any u64; time budget and time spent: any Duration; origin sets of up to 3 ids in 0..62 or the authorizer id',
        'stubs': ['alloc::fmt::format'],
        'out': 'the bulk of the property: symbol translation, reloading of blocks, facts per origin, policies, from_snapshot (strings + protobuf + whole-authorizer state) - only the numeric envelope and the origin encoding are decided',
        'level_text': 'Numeric envelope only: bounded symbolic execution of snapshot() on an empty authorizer for every value of the limits and counters.',
    },
    'C04': {
        'crate': 'biscuit-auth',
        'quick': [r'c04_scope_\w+', r'c03_trust_scopes[12]', r'c03_load_\w+'],
        'per_harness': {r'c03_load_\w+': {'unwindset': 'memcmp.0:40'}},
        'thorough': [r'c03_trust_\w+'],
        'cap': {'quick': 400, 'thorough': 1200},
        'functions': ['datalog::origin::TrustedOrigins::{default,from_scopes,contains}'],
        'bounds': 'as C03, plus block-level scope lists (0..2) combined with rule/check-level scope lists (0..2): which origins a rule, check or policy of a block sees',
        'out': 'EVERYTHING ELSE in the property: the decision procedure itself (check kinds, policy order, failed-check lists, queries) - Authorizer::authorize_inner over World::query_match could not be executed symbolically (even `check if <literal>` on an empty store did not finish: Expression::evaluate clones enum values out of heap vectors); how tokens are loaded into the authorizer (public key -> block map)',
        'level_text': 'Scope semantics only ("facts are visible to a rule, check or policy only when every block that contributed to them is trusted by its scope"): bounded symbolic execution of the trust computation against an independent bit-mask specification. The authorization decision itself is NOT decided by this check.',
    },
}


def bound_of(prop, harness):
    return PROPS[prop].get('bounds', '')

NOT_APPLICABLE = {
    'C11': 'determinism over hash orders needs Rule::find_match / check_match_all / run_with_limits under a nondeterministic iteration order; one rule application over one fact did not finish under CBMC (boxed iterator chains, per-binding hash maps of enum values), so no kernel of this property is within reach',
    'C14': 'printing goes through core::fmt and parsing through nom combinators over strings: both are byte loops over symbolic-length buffers behind trait objects that the symbolic executor does not get through (fmt alone made harnesses time out and is stubbed everywhere else); the unescaped-quote defect F2 was found by reading and is recorded in DESIGN.md only',
    'C19': 'Kani 0.68 fails with an internal compiler error (kani-compiler/src/intrinsics.rs:243, an intrinsic whose output type it does not expect) while collecting the code reachable from any harness in the biscuit-capi crate, so no C entry point can be encoded; the size / buffer defects F10 were found by reading and are recorded in DESIGN.md only',
    'C20': 'parameter substitution walks builder ASTs (enums holding owned Strings inside heap vectors and hash maps keyed by String); the smallest case - one fact, one parameter, one integer value - did not finish in 400 s under CBMC (pointers stored in enum payloads on the heap are not resolved), so the property cannot be decided by this technique here; defects F7 were found by reading and are recorded in DESIGN.md only',
    'C12': 'quantifies over multi-step build/append/serialize histories compared across a protobuf round trip with real string interning and signing; no bounded harness can execute those paths (prost + ed25519 + string tables) and no leaf kernel captures the index-shift failures the property is about',
    'C18': 'the subject is proc-macro token generation at compile time; there is no function a solver can execute symbolically whose result is the program the macro expands to',
}
