"""Per-property configuration of the checks: which harnesses form the quick / thorough tier,
caps, what is encoded, bounds, what is outside the claim. Read by /verif/check."""

COMMON_ASSUMPTIONS = [
    "Kani 0.68 / CBMC 6.11 / cadical translate and decide the compiled MIR of biscuit-auth correctly (trusted tool chain)",
    "std::collections::{BTreeSet,BTreeMap,HashSet,HashMap} are replaced, in the solver's copy of biscuit-auth only, by the Vec-backed models of /verif/kani/vstd_model.rs "
    "(same API subset, sorted/insertion order); Origin's block-id set by a 64-bit mask (tokens of <= 63 blocks)",
    "regex::Regex::{new,is_match} are stubbed (new -> Err, is_match -> arbitrary bool): regular-expression semantics are outside every claim",
    "the bound of each harness (shapes, lengths, unwind depth) is part of the claim; unwinding assertions are on, a bound that is too small is reported as inconclusive",
]

_SHAPES = ['var', 'int', 'str', 'date', 'bytes0', 'bytes1', 'bool', 'set0', 'set1', 'null', 'arr0', 'arr1', 'map0', 'map1']

PROPS = {
    'C06': {
        'crate': 'biscuit-auth',
        # quick: for every binary operator the rows of its "home" left-hand types + one foreign type
        'quick': [
            r'c06_bin_(lt|gt|le|ge)_(int|date)', r'c06_bin_(eq|ne|heq|hne)_(int|set1|null)',
            r'c06_bin_contains_(set1|arr1|map1)', r'c06_bin_(prefix|suffix)_arr1', r'c06_bin_regex_str',
            r'c06_bin_(add|sub|mul|div)_int', r'c06_bin_(and|or)_bool', r'c06_bin_(intersection|union)_set0',
            r'c06_bin_bit(and|or|xor)_int', r'c06_bin_(lazyand|lazyor|all|any)_bool', r'c06_bin_get_(arr1|map1)',
            r'c06_bin_ffi_int',
        ],
        'thorough': [r'c06_bin_\w+'],
        'cap': {'quick': 300, 'thorough': 900},
        'functions': ['datalog::expression::Binary::evaluate', 'datalog::expression::Unary::evaluate',
                      'datalog::symbol::TemporarySymbolTable::{new,get_symbol,insert}', 'derived Clone/Drop/Ord/PartialEq of datalog::Term'],
        'bounds': 'every (binary operator x left shape x right shape) cell over 14 shapes (10 term types; collections with 0 and 1 '
                  'integer element); integer/date/bool payloads symbolic at full width (i64/u64); unwind 3; '
                  'recursion through Term bounded at 2 activations (terms one level deep)',
        'out': 'string operator results on known symbols (separate c06_str harnesses), set x set union/intersection of two non-empty sets, '
               'lookups (get/contains) with symbolic keys that differ, nested collections, extern functions, regex semantics',
    },
}


def bound_of(prop, harness):
    return PROPS[prop].get('bounds', '')

NOT_APPLICABLE = {
    'C12': 'quantifies over multi-step build/append/serialize histories compared across a protobuf round trip with real string interning and signing; no bounded harness can execute those paths (prost + ed25519 + string tables) and no leaf kernel captures the index-shift failures the property is about',
    'C18': 'the subject is proc-macro token generation at compile time; there is no function a solver can execute symbolically whose result is the program the macro expands to',
}
