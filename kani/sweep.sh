#!/bin/bash
# all quick checks on the current tree, sequentially; summary on stdout
cd /verif
for p in $(python3 -c "import json; print(' '.join(c['property_id'] for c in json.load(open('MANIFEST.json'))['checks']))"); do
  ./check $p --tier ${1:-quick} > /tmp/sweep_$p.log 2>&1; echo "$p rc=$? $(tail -1 /tmp/sweep_$p.log)"
done
