#!/usr/bin/env python3
"""seeded/RESULTS.txt (+ meta.json of every seed) -> seeded/RESULTS.md"""
import json, os, re
root = '/verif/seeded'
res = {}
for l in open(os.path.join(root, 'RESULTS.txt')):
    m = re.match(r'SEEDTEST (\S+) (\S+) rc=(\d+) only=(.*)', l.strip())
    if m:
        res.setdefault(m.group(1), []).append((m.group(2), int(m.group(3)), m.group(4)))
rows = []
for d in sorted(os.listdir(root)):
    mp = os.path.join(root, d, 'meta.json')
    if not os.path.exists(mp):
        continue
    meta = json.load(open(mp))
    runs = res.get(d, [])
    if not runs:
        verdict = 'not run: the property is not claimed (not_applicable) or no harness reaches the changed code'
    else:
        parts = []
        for prop, rc, only in runs:
            v = {0: 'NOT detected (exit 0)', 1: 'DETECTED (VIOLATION%s)' % (', replayed natively' if ('r2m' not in d and 'r3m' not in d and 'r4m' not in d and d != 'C06-m2') or d == 'C01-r2m1' else '; native replay skipped in this matrix run'), 2: 'inconclusive (exit 2)', 3: 'patch does not apply'}.get(rc, 'rc=%d' % rc)
            parts.append('./check %s%s: %s' % (prop, '' if only == '-' else ' --only %r' % only, v))
        verdict = '; '.join(parts)
    rows.append((d, meta.get('breaks_property'), (meta.get('summary') or '')[:260].replace('\n', ' ').replace('|', '/'), verdict))
with open(os.path.join(root, 'RESULTS.md'), 'w') as f:
    f.write('# Seeded changes and the checks run on them\n\n')
    f.write('Each directory holds patch.diff, demo.rs and meta.json (what the change needs to manifest, what was run to confirm it). '
            'Results below come from kani/seedmatrix.sh: the change is applied to /repo, the quick check runs (restricted with --only to the '
            'harnesses that exercise the changed function, to keep the matrix affordable), the change is undone.\n\n')
    det = sum(1 for r in rows if 'DETECTED' in r[3] and 'NOT detected' not in r[3].replace('DETECTED (VIOLATION', ''))
    f.write('| seed | breaks | change | result |\n|---|---|---|---|\n')
    for r in rows:
        f.write('| %s | %s | %s | %s |\n' % r)
    n_det = sum(1 for r in rows if 'DETECTED (VIOLATION' in r[3])
    r1=[r for r in rows if 'r2m' not in r[0] and 'r3m' not in r[0] and 'r4m' not in r[0]]; r4=[r for r in rows if 'r4m' in r[0]]; r2=[r for r in rows if 'r2m' in r[0]]; r3=[r for r in rows if 'r3m' in r[0]]
    f.write('\nRound 1 (written before any check existed): %d of %d detected. Round 2 (16 further changes for 8 claimed properties, written by fresh sub-agents told only which round-1 changes to avoid): %d of %d detected. Round 3 (12 further changes for 6 claimed properties): %d of %d detected. Round 4 (8 further changes for 7 claimed properties): %d of %d detected.\n' % (sum(1 for r in r1 if 'DETECTED (VIOLATION' in r[3]), len(r1), sum(1 for r in r2 if 'DETECTED (VIOLATION' in r[3]), len(r2), sum(1 for r in r3 if 'DETECTED (VIOLATION' in r[3]), len(r3), sum(1 for r in r4 if 'DETECTED (VIOLATION' in r[3]), len(r4)))
    f.write('\n%d of %d seeded changes are detected by a check; the others fall in the "Out" part of their property or in a not_applicable property (see DESIGN.md section 4).\n' % (n_det, len(rows)))
print('written', len(rows))
