//! Solver-friendly models of the std collections used by biscuit-auth.
//! BTree*: sorted Vec; Hash*: insertion-ordered Vec (linear search by Eq).
#![allow(dead_code)]
use std::borrow::Borrow;
use std::convert::TryFrom;
use std::cmp::Ordering;
use std::hash::{Hash, Hasher};
use std::iter::FromIterator;

/// `Vec::insert` for the solver: the vector is rebuilt with *exact* capacity from an array
/// literal (one whole-object write), so that CBMC keeps element-wise, constant-foldable
/// knowledge of the buffer (a buffer with spare capacity is a byte array to CBMC: variants
/// and payloads read back from it no longer fold). Falls back to push + swaps above 4 elements.
pub(crate) fn vec_insert<T>(v: &mut Vec<T>, i: usize, x: T) {
    let old = std::mem::take(v);
    match old.len() {
        0 => {
            std::mem::forget(old);
            *v = vec![x];
        }
        1 => {
            let [a] = match <[T; 1]>::try_from(old) {
                Ok(t) => t,
                Err(_) => unreachable!(),
            };
            *v = if i == 0 { vec![x, a] } else { vec![a, x] };
        }
        2 => {
            let [a, b] = match <[T; 2]>::try_from(old) {
                Ok(t) => t,
                Err(_) => unreachable!(),
            };
            *v = if i == 0 {
                vec![x, a, b]
            } else if i == 1 {
                vec![a, x, b]
            } else {
                vec![a, b, x]
            };
        }
        3 => {
            let [a, b, c] = match <[T; 3]>::try_from(old) {
                Ok(t) => t,
                Err(_) => unreachable!(),
            };
            *v = if i == 0 {
                vec![x, a, b, c]
            } else if i == 1 {
                vec![a, x, b, c]
            } else if i == 2 {
                vec![a, b, x, c]
            } else {
                vec![a, b, c, x]
            };
        }
        _ => {
            *v = old;
            v.push(x);
            let mut j = v.len() - 1;
            while j > i {
                v.swap(j, j - 1);
                j -= 1;
            }
        }
    }
}

/// exact-capacity vector from up to four collected items
pub(crate) fn exact_vec<T: Copy>(items: &[Option<T>; 4], n: usize) -> Vec<T> {
    match n {
        0 => Vec::new(),
        1 => vec![items[0].unwrap()],
        2 => vec![items[0].unwrap(), items[1].unwrap()],
        3 => vec![items[0].unwrap(), items[1].unwrap(), items[2].unwrap()],
        _ => vec![items[0].unwrap(), items[1].unwrap(), items[2].unwrap(), items[3].unwrap()],
    }
}

// ---------------------------------------------------------------- BTreeSet
#[derive(Clone, Debug)]
pub struct BTreeSet<T> {
    v: Vec<T>,
}

impl<T> Default for BTreeSet<T> {
    fn default() -> Self {
        BTreeSet { v: Vec::new() }
    }
}

impl<T: Ord> BTreeSet<T> {
    pub fn new() -> Self {
        BTreeSet { v: Vec::new() }
    }
    fn pos<Q: ?Sized + Ord>(&self, x: &Q) -> Result<usize, usize>
    where
        T: Borrow<Q>,
    {
        let mut i = 0;
        while i < self.v.len() {
            match self.v[i].borrow().cmp(x) {
                Ordering::Less => i += 1,
                Ordering::Equal => return Ok(i),
                Ordering::Greater => return Err(i),
            }
        }
        Err(i)
    }
    pub fn insert(&mut self, x: T) -> bool {
        match self.pos(&x) {
            Ok(_) => false,
            Err(i) => {
                vec_insert(&mut self.v, i, x);
                true
            }
        }
    }
    pub fn contains<Q: ?Sized + Ord>(&self, x: &Q) -> bool
    where
        T: Borrow<Q>,
    {
        self.pos(x).is_ok()
    }
    pub fn remove<Q: ?Sized + Ord>(&mut self, x: &Q) -> bool
    where
        T: Borrow<Q>,
    {
        match self.pos(x) {
            Ok(i) => {
                self.v.remove(i);
                true
            }
            Err(_) => false,
        }
    }
    pub fn len(&self) -> usize {
        self.v.len()
    }
    pub fn is_empty(&self) -> bool {
        self.v.is_empty()
    }
    pub fn iter(&self) -> std::slice::Iter<'_, T> {
        self.v.iter()
    }
    pub fn is_superset(&self, other: &Self) -> bool {
        let mut i = 0;
        while i < other.v.len() {
            if !self.contains(&other.v[i]) {
                return false;
            }
            i += 1;
        }
        true
    }
    pub fn is_subset(&self, other: &Self) -> bool {
        other.is_superset(self)
    }
    pub fn is_disjoint(&self, other: &Self) -> bool {
        let mut i = 0;
        while i < other.v.len() {
            if self.contains(&other.v[i]) {
                return false;
            }
            i += 1;
        }
        true
    }
    pub fn union<'a>(&'a self, other: &'a Self) -> std::vec::IntoIter<&'a T> {
        if self.v.len() + other.v.len() <= 4 {
            // small case, written so that every index is a loop counter: all of self, then
            // the elements of other not in self, then an insertion sort with conditional swaps
            let mut items: [Option<&'a T>; 4] = [None; 4];
            let mut n = 0;
            while n < self.v.len() {
                items[n] = Some(&self.v[n]);
                n += 1;
            }
            let mut j = 0;
            while j < other.v.len() {
                if !self.contains(&other.v[j]) {
                    items[n] = Some(&other.v[j]);
                    n += 1;
                }
                j += 1;
            }
            let mut a = 1;
            while a < n {
                let mut b = a;
                while b > 0 {
                    if let (Some(x), Some(y)) = (items[b - 1], items[b]) {
                        if y < x {
                            items[b - 1] = Some(y);
                            items[b] = Some(x);
                        }
                    }
                    b -= 1;
                }
                a += 1;
            }
            return exact_vec(&items, n).into_iter();
        }
        let mut out: Vec<&'a T> = Vec::new();
        let (mut i, mut j) = (0, 0);
        while i < self.v.len() || j < other.v.len() {
            if i == self.v.len() {
                out.push(&other.v[j]);
                j += 1;
            } else if j == other.v.len() {
                out.push(&self.v[i]);
                i += 1;
            } else {
                match self.v[i].cmp(&other.v[j]) {
                    Ordering::Less => {
                        out.push(&self.v[i]);
                        i += 1;
                    }
                    Ordering::Greater => {
                        out.push(&other.v[j]);
                        j += 1;
                    }
                    Ordering::Equal => {
                        out.push(&self.v[i]);
                        i += 1;
                        j += 1;
                    }
                }
            }
        }
        out.into_iter()
    }
    pub fn intersection<'a>(&'a self, other: &'a Self) -> std::vec::IntoIter<&'a T> {
        if self.v.len() > 4 {
            let mut out: Vec<&'a T> = Vec::new();
            let mut i = 0;
            while i < self.v.len() {
                if other.contains(&self.v[i]) {
                    out.push(&self.v[i]);
                }
                i += 1;
            }
            return out.into_iter();
        }
        let mut items: [Option<&'a T>; 4] = [None; 4];
        let mut n = 0;
        let mut i = 0;
        while i < self.v.len() {
            if other.contains(&self.v[i]) {
                items[n] = Some(&self.v[i]);
                n += 1;
            }
            i += 1;
        }
        exact_vec(&items, n).into_iter()
    }
}

impl<T: Ord> Extend<T> for BTreeSet<T> {
    fn extend<I: IntoIterator<Item = T>>(&mut self, iter: I) {
        for x in iter {
            self.insert(x);
        }
    }
}
impl<'a, T: Ord + Copy + 'a> Extend<&'a T> for BTreeSet<T> {
    fn extend<I: IntoIterator<Item = &'a T>>(&mut self, iter: I) {
        for x in iter {
            self.insert(*x);
        }
    }
}
impl<T: Ord> FromIterator<T> for BTreeSet<T> {
    fn from_iter<I: IntoIterator<Item = T>>(iter: I) -> Self {
        let mut s = BTreeSet::new();
        for x in iter {
            s.insert(x);
        }
        s
    }
}
impl<T: Ord, const N: usize> From<[T; N]> for BTreeSet<T> {
    fn from(a: [T; N]) -> Self {
        IntoIterator::into_iter(a).collect()
    }
}
impl<T> IntoIterator for BTreeSet<T> {
    type Item = T;
    type IntoIter = std::vec::IntoIter<T>;
    fn into_iter(self) -> Self::IntoIter {
        self.v.into_iter()
    }
}
impl<'a, T> IntoIterator for &'a BTreeSet<T> {
    type Item = &'a T;
    type IntoIter = std::slice::Iter<'a, T>;
    fn into_iter(self) -> Self::IntoIter {
        self.v.iter()
    }
}
impl<T: PartialEq> PartialEq for BTreeSet<T> {
    fn eq(&self, o: &Self) -> bool {
        self.v == o.v
    }
}
impl<T: Eq> Eq for BTreeSet<T> {}
impl<T: PartialOrd> PartialOrd for BTreeSet<T> {
    fn partial_cmp(&self, o: &Self) -> Option<Ordering> {
        self.v.partial_cmp(&o.v)
    }
}
impl<T: Ord> Ord for BTreeSet<T> {
    fn cmp(&self, o: &Self) -> Ordering {
        self.v.cmp(&o.v)
    }
}
impl<T: Hash> Hash for BTreeSet<T> {
    fn hash<H: Hasher>(&self, h: &mut H) {
        self.v.hash(h)
    }
}

// ---------------------------------------------------------------- BTreeMap
#[derive(Clone, Debug)]
pub struct BTreeMap<K, V> {
    v: Vec<(K, V)>,
}
impl<K, V> Default for BTreeMap<K, V> {
    fn default() -> Self {
        BTreeMap { v: Vec::new() }
    }
}
pub struct PairIter<'a, K, V> {
    it: std::slice::Iter<'a, (K, V)>,
}
impl<'a, K, V> Iterator for PairIter<'a, K, V> {
    type Item = (&'a K, &'a V);
    fn next(&mut self) -> Option<Self::Item> {
        self.it.next().map(|kv| (&kv.0, &kv.1))
    }
}
impl<'a, K, V> Clone for PairIter<'a, K, V> {
    fn clone(&self) -> Self {
        PairIter { it: self.it.clone() }
    }
}
pub struct PairIterMut<'a, K, V> {
    it: std::slice::IterMut<'a, (K, V)>,
}
impl<'a, K, V> Iterator for PairIterMut<'a, K, V> {
    type Item = (&'a K, &'a mut V);
    fn next(&mut self) -> Option<Self::Item> {
        self.it.next().map(|kv| (&kv.0, &mut kv.1))
    }
}
pub struct Keys<'a, K, V> {
    it: std::slice::Iter<'a, (K, V)>,
}
impl<'a, K, V> Iterator for Keys<'a, K, V> {
    type Item = &'a K;
    fn next(&mut self) -> Option<Self::Item> {
        self.it.next().map(|kv| &kv.0)
    }
}
pub struct Values<'a, K, V> {
    it: std::slice::Iter<'a, (K, V)>,
}
impl<'a, K, V> Iterator for Values<'a, K, V> {
    type Item = &'a V;
    fn next(&mut self) -> Option<Self::Item> {
        self.it.next().map(|kv| &kv.1)
    }
}
impl<K: Ord, V> BTreeMap<K, V> {
    pub fn new() -> Self {
        BTreeMap { v: Vec::new() }
    }
    fn pos<Q: ?Sized + Ord>(&self, x: &Q) -> Result<usize, usize>
    where
        K: Borrow<Q>,
    {
        let mut i = 0;
        while i < self.v.len() {
            match self.v[i].0.borrow().cmp(x) {
                Ordering::Less => i += 1,
                Ordering::Equal => return Ok(i),
                Ordering::Greater => return Err(i),
            }
        }
        Err(i)
    }
    pub fn insert(&mut self, k: K, val: V) -> Option<V> {
        match self.pos(&k) {
            Ok(i) => Some(std::mem::replace(&mut self.v[i].1, val)),
            Err(i) => {
                vec_insert(&mut self.v, i, (k, val));
                None
            }
        }
    }
    pub fn get<Q: ?Sized + Ord>(&self, k: &Q) -> Option<&V>
    where
        K: Borrow<Q>,
    {
        match self.pos(k) {
            Ok(i) => Some(&self.v[i].1),
            Err(_) => None,
        }
    }
    pub fn get_mut<Q: ?Sized + Ord>(&mut self, k: &Q) -> Option<&mut V>
    where
        K: Borrow<Q>,
    {
        match self.pos(k) {
            Ok(i) => Some(&mut self.v[i].1),
            Err(_) => None,
        }
    }
    pub fn contains_key<Q: ?Sized + Ord>(&self, k: &Q) -> bool
    where
        K: Borrow<Q>,
    {
        self.pos(k).is_ok()
    }
    pub fn len(&self) -> usize {
        self.v.len()
    }
    pub fn is_empty(&self) -> bool {
        self.v.is_empty()
    }
    pub fn iter(&self) -> PairIter<'_, K, V> {
        PairIter { it: self.v.iter() }
    }
    pub fn keys(&self) -> Keys<'_, K, V> {
        Keys { it: self.v.iter() }
    }
    pub fn values(&self) -> Values<'_, K, V> {
        Values { it: self.v.iter() }
    }
    pub fn entry(&mut self, k: K) -> BEntry<'_, K, V> {
        BEntry { m: self, k }
    }
}
pub struct BEntry<'a, K, V> {
    m: &'a mut BTreeMap<K, V>,
    k: K,
}
impl<'a, K: Ord, V> BEntry<'a, K, V> {
    pub fn or_default(self) -> &'a mut V
    where
        V: Default,
    {
        self.or_insert_with(V::default)
    }
    pub fn or_insert(self, val: V) -> &'a mut V {
        self.or_insert_with(|| val)
    }
    pub fn or_insert_with<F: FnOnce() -> V>(self, f: F) -> &'a mut V {
        let i = match self.m.pos(&self.k) {
            Ok(i) => i,
            Err(i) => {
                vec_insert(&mut self.m.v, i, (self.k, f()));
                i
            }
        };
        &mut self.m.v[i].1
    }
}
impl<K: Ord, V> FromIterator<(K, V)> for BTreeMap<K, V> {
    fn from_iter<I: IntoIterator<Item = (K, V)>>(iter: I) -> Self {
        let mut s = BTreeMap::new();
        for (k, v) in iter {
            s.insert(k, v);
        }
        s
    }
}
impl<K, V> IntoIterator for BTreeMap<K, V> {
    type Item = (K, V);
    type IntoIter = std::vec::IntoIter<(K, V)>;
    fn into_iter(self) -> Self::IntoIter {
        self.v.into_iter()
    }
}
impl<'a, K, V> IntoIterator for &'a BTreeMap<K, V> {
    type Item = (&'a K, &'a V);
    type IntoIter = PairIter<'a, K, V>;
    fn into_iter(self) -> Self::IntoIter {
        PairIter { it: self.v.iter() }
    }
}
impl<K: PartialEq, V: PartialEq> PartialEq for BTreeMap<K, V> {
    fn eq(&self, o: &Self) -> bool {
        self.v == o.v
    }
}
impl<K: Eq, V: Eq> Eq for BTreeMap<K, V> {}
impl<K: PartialOrd, V: PartialOrd> PartialOrd for BTreeMap<K, V> {
    fn partial_cmp(&self, o: &Self) -> Option<Ordering> {
        self.v.partial_cmp(&o.v)
    }
}
impl<K: Ord, V: Ord> Ord for BTreeMap<K, V> {
    fn cmp(&self, o: &Self) -> Ordering {
        self.v.cmp(&o.v)
    }
}
impl<K: Hash, V: Hash> Hash for BTreeMap<K, V> {
    fn hash<H: Hasher>(&self, h: &mut H) {
        self.v.hash(h)
    }
}

// ---------------------------------------------------------------- HashSet
#[derive(Clone, Debug)]
pub struct HashSet<T> {
    v: Vec<T>,
}
impl<T> Default for HashSet<T> {
    fn default() -> Self {
        HashSet { v: Vec::new() }
    }
}
impl<T: Eq> HashSet<T> {
    pub fn new() -> Self {
        HashSet { v: Vec::new() }
    }
    fn pos<Q: ?Sized + Eq>(&self, x: &Q) -> Option<usize>
    where
        T: Borrow<Q>,
    {
        let mut i = 0;
        while i < self.v.len() {
            if self.v[i].borrow() == x {
                return Some(i);
            }
            i += 1;
        }
        None
    }
    pub fn insert(&mut self, x: T) -> bool {
        if self.pos(&x).is_some() {
            false
        } else {
            self.v.push(x);
            true
        }
    }
    pub fn contains<Q: ?Sized + Eq>(&self, x: &Q) -> bool
    where
        T: Borrow<Q>,
    {
        self.pos(x).is_some()
    }
    pub fn remove<Q: ?Sized + Eq>(&mut self, x: &Q) -> bool
    where
        T: Borrow<Q>,
    {
        match self.pos(x) {
            Some(i) => {
                self.v.remove(i);
                true
            }
            None => false,
        }
    }
    pub fn len(&self) -> usize {
        self.v.len()
    }
    pub fn is_empty(&self) -> bool {
        self.v.is_empty()
    }
    pub fn iter(&self) -> std::slice::Iter<'_, T> {
        self.v.iter()
    }
    pub fn is_disjoint(&self, other: &Self) -> bool {
        let mut i = 0;
        while i < other.v.len() {
            if self.contains(&other.v[i]) {
                return false;
            }
            i += 1;
        }
        true
    }
    pub fn intersection<'a>(&'a self, other: &'a Self) -> std::vec::IntoIter<&'a T> {
        if self.v.len() > 4 {
            let mut out: Vec<&'a T> = Vec::new();
            let mut i = 0;
            while i < self.v.len() {
                if other.contains(&self.v[i]) {
                    out.push(&self.v[i]);
                }
                i += 1;
            }
            return out.into_iter();
        }
        let mut items: [Option<&'a T>; 4] = [None; 4];
        let mut n = 0;
        let mut i = 0;
        while i < self.v.len() {
            if other.contains(&self.v[i]) {
                items[n] = Some(&self.v[i]);
                n += 1;
            }
            i += 1;
        }
        exact_vec(&items, n).into_iter()
    }
}
impl<T: Eq> Extend<T> for HashSet<T> {
    fn extend<I: IntoIterator<Item = T>>(&mut self, iter: I) {
        for x in iter {
            self.insert(x);
        }
    }
}
impl<T: Eq> FromIterator<T> for HashSet<T> {
    fn from_iter<I: IntoIterator<Item = T>>(iter: I) -> Self {
        let mut s = HashSet::new();
        for x in iter {
            s.insert(x);
        }
        s
    }
}
impl<T: Eq, const N: usize> From<[T; N]> for HashSet<T> {
    fn from(a: [T; N]) -> Self {
        IntoIterator::into_iter(a).collect()
    }
}
impl<T> IntoIterator for HashSet<T> {
    type Item = T;
    type IntoIter = std::vec::IntoIter<T>;
    fn into_iter(self) -> Self::IntoIter {
        self.v.into_iter()
    }
}
impl<'a, T> IntoIterator for &'a HashSet<T> {
    type Item = &'a T;
    type IntoIter = std::slice::Iter<'a, T>;
    fn into_iter(self) -> Self::IntoIter {
        self.v.iter()
    }
}
impl<T: Eq> PartialEq for HashSet<T> {
    fn eq(&self, o: &Self) -> bool {
        if self.v.len() != o.v.len() {
            return false;
        }
        let mut i = 0;
        while i < self.v.len() {
            if !o.contains(&self.v[i]) {
                return false;
            }
            i += 1;
        }
        true
    }
}
impl<T: Eq> Eq for HashSet<T> {}

// ---------------------------------------------------------------- HashMap
#[derive(Clone, Debug)]
pub struct HashMap<K, V> {
    v: Vec<(K, V)>,
}
impl<K, V> Default for HashMap<K, V> {
    fn default() -> Self {
        HashMap { v: Vec::new() }
    }
}
pub struct ValuesMut<'a, K, V> {
    it: std::slice::IterMut<'a, (K, V)>,
}
impl<'a, K, V> Iterator for ValuesMut<'a, K, V> {
    type Item = &'a mut V;
    fn next(&mut self) -> Option<Self::Item> {
        self.it.next().map(|kv| &mut kv.1)
    }
}
impl<K: Eq, V> HashMap<K, V> {
    pub fn new() -> Self {
        HashMap { v: Vec::new() }
    }
    fn pos<Q: ?Sized + Eq>(&self, x: &Q) -> Option<usize>
    where
        K: Borrow<Q>,
    {
        let mut i = 0;
        while i < self.v.len() {
            if self.v[i].0.borrow() == x {
                return Some(i);
            }
            i += 1;
        }
        None
    }
    pub fn insert(&mut self, k: K, val: V) -> Option<V> {
        match self.pos(&k) {
            Some(i) => Some(std::mem::replace(&mut self.v[i].1, val)),
            None => {
                self.v.push((k, val));
                None
            }
        }
    }
    pub fn get<Q: ?Sized + Eq>(&self, k: &Q) -> Option<&V>
    where
        K: Borrow<Q>,
    {
        match self.pos(k) {
            Some(i) => Some(&self.v[i].1),
            None => None,
        }
    }
    pub fn get_mut<Q: ?Sized + Eq>(&mut self, k: &Q) -> Option<&mut V>
    where
        K: Borrow<Q>,
    {
        match self.pos(k) {
            Some(i) => Some(&mut self.v[i].1),
            None => None,
        }
    }
    pub fn remove<Q: ?Sized + Eq>(&mut self, k: &Q) -> Option<V>
    where
        K: Borrow<Q>,
    {
        match self.pos(k) {
            Some(i) => Some(self.v.remove(i).1),
            None => None,
        }
    }
    pub fn contains_key<Q: ?Sized + Eq>(&self, k: &Q) -> bool
    where
        K: Borrow<Q>,
    {
        self.pos(k).is_some()
    }
    pub fn len(&self) -> usize {
        self.v.len()
    }
    pub fn is_empty(&self) -> bool {
        self.v.is_empty()
    }
    pub fn iter(&self) -> PairIter<'_, K, V> {
        PairIter { it: self.v.iter() }
    }
    pub fn iter_mut(&mut self) -> PairIterMut<'_, K, V> {
        PairIterMut { it: self.v.iter_mut() }
    }
    pub fn keys(&self) -> Keys<'_, K, V> {
        Keys { it: self.v.iter() }
    }
    pub fn values(&self) -> Values<'_, K, V> {
        Values { it: self.v.iter() }
    }
    pub fn values_mut(&mut self) -> ValuesMut<'_, K, V> {
        ValuesMut { it: self.v.iter_mut() }
    }
    pub fn entry(&mut self, k: K) -> HEntry<'_, K, V> {
        HEntry { m: self, k }
    }
}
pub struct HEntry<'a, K, V> {
    m: &'a mut HashMap<K, V>,
    k: K,
}
impl<'a, K: Eq, V> HEntry<'a, K, V> {
    pub fn or_default(self) -> &'a mut V
    where
        V: Default,
    {
        self.or_insert_with(V::default)
    }
    pub fn or_insert(self, val: V) -> &'a mut V {
        self.or_insert_with(|| val)
    }
    pub fn or_insert_with<F: FnOnce() -> V>(self, f: F) -> &'a mut V {
        let i = match self.m.pos(&self.k) {
            Some(i) => i,
            None => {
                self.m.v.push((self.k, f()));
                self.m.v.len() - 1
            }
        };
        &mut self.m.v[i].1
    }
}
impl<K: Eq, V> Extend<(K, V)> for HashMap<K, V> {
    fn extend<I: IntoIterator<Item = (K, V)>>(&mut self, iter: I) {
        for (k, v) in iter {
            self.insert(k, v);
        }
    }
}
impl<K: Eq, V> FromIterator<(K, V)> for HashMap<K, V> {
    fn from_iter<I: IntoIterator<Item = (K, V)>>(iter: I) -> Self {
        let mut s = HashMap::new();
        for (k, v) in iter {
            s.insert(k, v);
        }
        s
    }
}
impl<K, V> IntoIterator for HashMap<K, V> {
    type Item = (K, V);
    type IntoIter = std::vec::IntoIter<(K, V)>;
    fn into_iter(self) -> Self::IntoIter {
        self.v.into_iter()
    }
}
impl<'a, K, V> IntoIterator for &'a HashMap<K, V> {
    type Item = (&'a K, &'a V);
    type IntoIter = PairIter<'a, K, V>;
    fn into_iter(self) -> Self::IntoIter {
        PairIter { it: self.v.iter() }
    }
}
impl<K: Eq, V: PartialEq> PartialEq for HashMap<K, V> {
    fn eq(&self, o: &Self) -> bool {
        if self.v.len() != o.v.len() {
            return false;
        }
        let mut i = 0;
        while i < self.v.len() {
            match o.get(&self.v[i].0) {
                Some(x) if *x == self.v[i].1 => {}
                _ => return false,
            }
            i += 1;
        }
        true
    }
}
impl<K: Eq, V: Eq> Eq for HashMap<K, V> {}

// ---------------------------------------------------------------- BitSet (block-id sets)
/// set of block ids: ids 0..=62 as bits, usize::MAX as bit 63; other ids are outside the bound
#[derive(Clone, Copy, Debug, Default, PartialEq, Eq, PartialOrd, Ord, Hash)]
pub struct BitSet {
    bits: u64,
}
fn bit_of(i: usize) -> u64 {
    if i == usize::MAX {
        1u64 << 63
    } else {
        #[cfg(kani)]
        kani::assume(i < 63);
        1u64 << (i as u32 & 63)
    }
}
pub struct BitIter {
    bits: u64,
}
const fn ids() -> [usize; 64] {
    let mut a = [0usize; 64];
    let mut i = 0;
    while i < 63 {
        a[i] = i;
        i += 1;
    }
    a[63] = usize::MAX;
    a
}
static IDS: [usize; 64] = ids();
impl Iterator for BitIter {
    type Item = &'static usize;
    /// loop-free: lowest set bit first (ascending ids, the authorizer id last, as in a BTreeSet)
    fn next(&mut self) -> Option<&'static usize> {
        if self.bits == 0 {
            return None;
        }
        let n = self.bits.trailing_zeros() as usize;
        self.bits &= self.bits - 1;
        Some(&IDS[n & 63])
    }
}
pub struct BitUnion {
    bits: u64,
}
impl BitUnion {
    pub fn cloned(self) -> std::iter::Cloned<BitIter> {
        BitIter { bits: self.bits }.cloned()
    }
}
impl BitSet {
    pub fn new() -> Self {
        BitSet { bits: 0 }
    }
    pub fn insert(&mut self, i: usize) -> bool {
        let b = bit_of(i);
        let fresh = self.bits & b == 0;
        self.bits |= b;
        fresh
    }
    pub fn contains(&self, i: &usize) -> bool {
        self.bits & bit_of(*i) != 0
    }
    pub fn union(&self, o: &Self) -> BitUnion {
        BitUnion { bits: self.bits | o.bits }
    }
    pub fn is_superset(&self, o: &Self) -> bool {
        self.bits & o.bits == o.bits
    }
    pub fn len(&self) -> usize {
        self.bits.count_ones() as usize
    }
    pub fn is_empty(&self) -> bool {
        self.bits == 0
    }
    pub fn iter(&self) -> BitIter {
        BitIter { bits: self.bits }
    }
}
impl Extend<usize> for BitSet {
    fn extend<I: IntoIterator<Item = usize>>(&mut self, iter: I) {
        for x in iter {
            self.insert(x);
        }
    }
}
impl<'a> Extend<&'a usize> for BitSet {
    fn extend<I: IntoIterator<Item = &'a usize>>(&mut self, iter: I) {
        for x in iter {
            self.insert(*x);
        }
    }
}
impl FromIterator<usize> for BitSet {
    fn from_iter<I: IntoIterator<Item = usize>>(iter: I) -> Self {
        let mut s = BitSet::new();
        for x in iter {
            s.insert(x);
        }
        s
    }
}
