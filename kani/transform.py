#!/usr/bin/env python3
"""Regenerate the solver workspace from /repo's current working tree.

  transform.py <repo> <workspace> [--native]

1. mirror <repo> (minus target/, .git) into <workspace> (content-compared, so cargo's
   fingerprints stay valid for files that did not change);
2. rewrite `std::collections` imports of biscuit-auth to `crate::vstd` (DESIGN 2.3);
3. `Origin.inner: BTreeSet<usize>` -> `crate::vstd::BitSet`;
4. copy vstd.rs and the harness files next to the module that owns them and append
   `#[cfg(kani)] #[path=..] mod ..;` lines (text is only ever ADDED to repository files,
   apart from the import paths of 2./3.);
5. insert the `#[cfg(kani)]` stub-routing prologues listed in ROUTES.

Every anchor that is not found raises AnchorMissing: the check then exits 2
(inconclusive), never 0 or 1.
"""
import os, re, sys, shutil, filecmp, json

HERE = os.path.dirname(os.path.abspath(__file__))


REPR_U8 = {
    'biscuit-auth/src/datalog/expression.rs': ['+Op', 'StackElem'],
}


class AnchorMissing(Exception):
    pass


def rewrite_imports(s):
    def grp(m):
        body = m.group(1)
        extra = []

        def take(mm):
            extra.append(mm.group(1))
            return ''
        body2 = re.sub(r'collections::(\{[^}]*\}|\w+)\s*,?\s*', take, body)
        out = ''
        if body2.strip().strip(','):
            out = 'use std::{' + body2 + '};'
        for e in extra:
            out += '\nuse crate::vstd::' + e + ';'
        return out
    s = re.sub(r'use std::\{((?:[^{}]|\{[^{}]*\})*)\};',
               lambda m: grp(m) if 'collections::' in m.group(1) else m.group(0), s)
    s = s.replace('std::collections::', 'crate::vstd::')
    return s


def load_routes():
    p = os.path.join(HERE, 'routes.json')
    return json.load(open(p)) if os.path.exists(p) else []


def harness_files():
    d = os.path.join(HERE, 'harness')
    out = []
    for f in sorted(os.listdir(d)):
        if not f.endswith('.rs'):
            continue
        src = open(os.path.join(d, f)).read()
        m = re.match(r'//@ owner: (\S+)', src)
        if not m:
            raise AnchorMissing('harness %s has no "//@ owner:" line' % f)
        out.append((f, m.group(1), src))
    return out


def transform_tree(repo, native=False):
    """returns {relative path: text} for every file that differs from (or is added to) the repo tree"""
    out = {}
    auth_src = os.path.join(repo, 'biscuit-auth', 'src')
    if not os.path.isdir(auth_src):
        raise AnchorMissing('biscuit-auth/src not found')
    texts = {}
    for dp, dn, fn in os.walk(auth_src):
        for f in fn:
            if f.endswith('.rs'):
                p = os.path.join(dp, f)
                texts[os.path.relpath(p, repo)] = open(p).read()
    n_rewritten = 0
    for rel, s in list(texts.items()):
        t = rewrite_imports(s)
        if t != s:
            n_rewritten += 1
            texts[rel] = t
    if n_rewritten < 10:
        raise AnchorMissing('std::collections import rewrite touched only %d files' % n_rewritten)
    # Origin bitmask model
    rel = 'biscuit-auth/src/datalog/origin.rs'
    s = texts.get(rel)
    anchor = 'pub(crate) inner: BTreeSet<usize>,'
    if s is None or anchor not in s:
        raise AnchorMissing('Origin.inner anchor not found in datalog/origin.rs')
    texts[rel] = s.replace(anchor, 'pub(crate) inner: crate::vstd::BitSet,')
    # explicit enum tags (layout only): niche-encoded discriminants read back from the heap are not
    # constant-folded by the symbolic executor; `#[repr(u8)]` gives every value its own tag byte
    for rel, names in REPR_U8.items():
        s = texts.get(rel)
        for n in names:
            a = '\n%senum %s {' % ('pub ' if n[0] == '+' else '', n.lstrip('+'))
            if s is None or s.count(a) != 1:
                raise AnchorMissing('enum %s not found exactly once in %s' % (n, rel))
            s = s.replace(a, '\n#[cfg_attr(kani, repr(u8))]' + a)
        texts[rel] = s
    # lib.rs: vstd + crate-level harness support
    rel = 'biscuit-auth/src/lib.rs'
    texts[rel] += '\n#[doc(hidden)]\npub mod vstd;\n'
    out['biscuit-auth/src/vstd.rs'] = open(os.path.join(HERE, 'vstd.rs')).read()
    out['biscuit-auth/src/vstd_model.rs'] = open(os.path.join(HERE, 'vstd_model.rs')).read()
    # harness modules
    for f, owner, src in harness_files():
        if owner not in texts and not os.path.exists(os.path.join(repo, owner)):
            raise AnchorMissing('owner file %s of harness %s not found' % (owner, f))
        if owner not in texts:
            texts[owner] = open(os.path.join(repo, owner)).read()
        mod = 'kh_' + f[:-3]
        odir = os.path.dirname(owner)
        base = os.path.basename(owner)
        # non-mod-rs files resolve #[path] relative to their own directory
        out[os.path.join(odir, mod + '.rs')] = src
        vis = 'pub' if owner.endswith('/lib.rs') else 'pub(crate)'
        texts[owner] += '\n#[cfg(kani)]\n#[path = "%s.rs"]\n%s mod %s;\n' % (mod, vis, mod)
    # stub routing prologues
    for r in load_routes():
        rel = r['file']
        if rel not in texts:
            if not os.path.exists(os.path.join(repo, rel)):
                raise AnchorMissing('route file %s not found' % rel)
            texts[rel] = open(os.path.join(repo, rel)).read()
        s = texts[rel]
        a = r['anchor']
        if s.count(a) != 1:
            raise AnchorMissing('route anchor %r found %d times in %s' % (a, s.count(a), rel))
        pre = r.get('prefix', a)
        if not a.startswith(pre):
            raise AnchorMissing('route prefix is not a prefix of its anchor in %s' % rel)
        texts[rel] = s.replace(a, pre + '\n' + r['insert'] + a[len(pre):])
    for rel, t in texts.items():
        p = os.path.join(repo, rel)
        if not os.path.exists(p) or open(p).read() != t:
            out[rel] = t
    return out


def sync(repo, ws, native=False):
    changed = transform_tree(repo, native)
    skip_dirs = {'.git', 'target'}
    want = {}
    for dp, dn, fn in os.walk(repo):
        dn[:] = [d for d in dn if d not in skip_dirs]
        for f in fn:
            p = os.path.join(dp, f)
            if os.path.isfile(p) and not os.path.islink(p):
                want[os.path.relpath(p, repo)] = None
    for rel, t in changed.items():
        want[rel] = t
    n_written = 0
    for rel, t in want.items():
        dst = os.path.join(ws, rel)
        os.makedirs(os.path.dirname(dst), exist_ok=True)
        if t is None:
            src = os.path.join(repo, rel)
            if not os.path.exists(dst) or not filecmp.cmp(src, dst, shallow=False):
                shutil.copyfile(src, dst)
                n_written += 1
        else:
            if not os.path.exists(dst) or open(dst).read() != t:
                open(dst, 'w').write(t)
                n_written += 1
    # remove stale files (not under target/)
    for dp, dn, fn in os.walk(ws):
        dn[:] = [d for d in dn if d not in ('target',)]
        for f in fn:
            rel = os.path.relpath(os.path.join(dp, f), ws)
            if rel not in want and not rel.startswith('.cargo'):
                os.remove(os.path.join(dp, f))
    return n_written, sorted(changed)


if __name__ == '__main__':
    repo, ws = sys.argv[1], sys.argv[2]
    try:
        n, ch = sync(repo, ws, '--native' in sys.argv)
    except AnchorMissing as e:
        print('ANCHOR-MISSING:', e)
        sys.exit(2)
    print('wrote %d files; %d transformed/added' % (n, len(ch)))
