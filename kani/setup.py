#!/usr/bin/env python3
"""setup_cmd: offline; checks the tool chain and pre-builds the dependency crates of the solver
workspace so that the first check does not pay for them (about one minute)."""
import os, sys, subprocess
HERE = os.path.dirname(os.path.abspath(__file__))
sys.path.insert(0, HERE)
import runner, transform
for t in ('cbmc', 'goto-cc', 'goto-instrument', 'kani-compiler'):
    p = os.path.join(runner.KBIN, t)
    if not os.path.exists(p):
        print('missing', p)
        sys.exit(1)
ws = os.path.join(runner.WORK, 'ws')
os.makedirs(ws, exist_ok=True)
with runner.Lock(os.path.join(runner.WORK, 'lock')):
    transform.sync(runner.REPO, ws)
    for crate in ('biscuit-auth',):
        if not os.path.isdir(os.path.join(ws, crate)):
            continue
        cmd = ['cargo', 'kani', '-Z', 'stubbing', '-Z', 'unstable-options', '--only-codegen',
               '--target-dir', os.path.join(ws, 'target'), '--harness', 'smoke_']
        p = subprocess.run(cmd, cwd=os.path.join(ws, crate), env=runner.env_offline(),
                           stdout=subprocess.PIPE, stderr=subprocess.STDOUT, text=True)
        print(crate, 'codegen rc', p.returncode)
        if p.returncode != 0:
            print(p.stdout[-3000:])
            sys.exit(1)
print('setup ok')
