#!/usr/bin/env python3
"""Solver runner: /repo working tree -> transformed workspace -> Kani codegen -> CBMC per harness.

Used by /verif/check. Nothing here decides a property: the verdicts are CBMC's.
"""
import os, re, sys, json, time, glob, shutil, subprocess, fcntl, hashlib, signal
from concurrent.futures import ThreadPoolExecutor

HERE = os.path.dirname(os.path.abspath(__file__))
sys.path.insert(0, HERE)
import transform

KANI_HOME = os.path.expanduser('~/.kani/kani-0.68.0')
KBIN = os.path.join(KANI_HOME, 'bin')
KANI_LIB_C = os.path.join(KANI_HOME, 'library', 'kani', 'kani_lib.c')
WORK = os.environ.get('BV_WORK', '/var/tmp/biscuit-verif')
REPO = os.environ.get('BV_REPO', '/repo')

CBMC_FLAGS = ['--no-malloc-may-fail', '--no-undefined-shift-check', '--no-signed-overflow-check',
              '--nan-check', '--no-self-loops-to-assumptions', '--no-pointer-primitive-check',
              '--object-bits', '16', '--sat-solver', 'cadical', '--slice-formula']


EXTRA_DEFAULT = ['--max-field-sensitivity-array-size', '1024']


class Inconclusive(Exception):
    pass


def env_offline():
    e = dict(os.environ)
    e['CARGO_NET_OFFLINE'] = 'true'
    e['PATH'] = KBIN + ':' + e.get('PATH', '')
    e.pop('RUSTUP_TOOLCHAIN', None)
    return e


class Lock:
    def __init__(self, path):
        self.path = path

    def __enter__(self):
        os.makedirs(os.path.dirname(self.path), exist_ok=True)
        self.f = open(self.path, 'w')
        fcntl.flock(self.f, fcntl.LOCK_EX)
        return self

    def __exit__(self, *a):
        fcntl.flock(self.f, fcntl.LOCK_UN)
        self.f.close()


def tree_digest(repo):
    h = hashlib.sha256()
    for dp, dn, fn in os.walk(repo):
        dn[:] = sorted(d for d in dn if d not in ('.git', 'target'))
        for f in sorted(fn):
            p = os.path.join(dp, f)
            if os.path.isfile(p) and not os.path.islink(p):
                h.update(os.path.relpath(p, repo).encode())
                h.update(open(p, 'rb').read())
    return h.hexdigest()[:16]


def codegen(crate, filters, rundir, log):
    """sync workspace from REPO, run kani codegen for the harnesses matching `filters`
    (substring filters), copy the per-harness GOTO binaries into rundir.
    returns list of harness dicts (metadata + 'symtab' path in rundir)."""
    ws = os.path.join(WORK, 'ws')
    os.makedirs(ws, exist_ok=True)
    with Lock(os.path.join(WORK, 'lock')):
        t0 = time.time()
        try:
            n, changed = transform.sync(REPO, ws)
        except transform.AnchorMissing as e:
            raise Inconclusive('transformation anchor missing: %s' % e)
        cdir = os.path.join(ws, crate)
        cmd = ['cargo', 'kani', '-Z', 'stubbing', '-Z', 'unstable-options', '--only-codegen',
               '--target-dir', os.path.join(ws, 'target')]
        for f in filters:
            cmd += ['--harness', f]
        builddir = os.path.join(ws, 'target', 'kani', 'x86_64-unknown-linux-gnu', 'debug', 'build', crate)
        # remove previous per-harness outputs of this crate: 25 MB per harness add up quickly
        if os.path.isdir(builddir):
            shutil.rmtree(builddir, ignore_errors=True)
        p = subprocess.run(cmd, cwd=cdir, env=env_offline(), stdout=subprocess.PIPE, stderr=subprocess.STDOUT, text=True)
        open(log, 'w').write(p.stdout)
        if p.returncode != 0:
            tail = '\n'.join(l for l in p.stdout.splitlines() if l.startswith('error') or 'panicked' in l)[:2000]
            raise Inconclusive('kani codegen failed (see %s): %s' % (log, tail))
        metas = glob.glob(os.path.join(builddir, '*', 'out', '*.kani-metadata.json'))
        if not metas:
            raise Inconclusive('no kani metadata produced')
        meta = max(metas, key=os.path.getmtime)
        md = json.load(open(meta))
        hs = []
        for h in md['proof_harnesses']:
            g = h['goto_file']
            if not os.path.exists(g):
                continue
            dst = os.path.join(rundir, h['pretty_name'].split('::')[-1] + '.symtab.out')
            shutil.copyfile(g, dst)
            h['symtab'] = dst
            pm = g.replace('.symtab.out', '.pretty_name_map.json')
            if os.path.exists(pm):
                h['name_map'] = dst.replace('.symtab.out', '.names.json')
                shutil.copyfile(pm, h['name_map'])
            hs.append(h)
        shutil.rmtree(builddir, ignore_errors=True)
        return hs, time.time() - t0, changed


def _run(cmd, log, timeout, mem_gb=None, cwd=None):
    def pre():
        os.setsid()
        if mem_gb:
            import resource
            b = int(mem_gb * (1 << 30))
            resource.setrlimit(resource.RLIMIT_AS, (b, b))
    with open(log, 'ab') as lf:
        p = subprocess.Popen(cmd, stdout=lf, stderr=subprocess.STDOUT, preexec_fn=pre, cwd=cwd, env=env_offline())
        try:
            rc = p.wait(timeout=timeout)
        except subprocess.TimeoutExpired:
            try:
                os.killpg(p.pid, signal.SIGKILL)
            except ProcessLookupError:
                pass
            p.wait()
            return 'timeout'
    return rc


# property ids end in .<class>.<number>; function names may themselves contain ']' (slices)
RES_RE = re.compile(r'^\[(.+?(?:\.\d+|\.recursion))\] (?:line (\d+) )?(.*?): (SUCCESS|FAILURE|UNKNOWN|ERROR)$', re.M | re.S)


def parse_cbmc(text):
    out = {'props': [], 'stats': {}}
    i = text.find('** Results:')
    body = text[i:] if i >= 0 else ''
    # split on lines starting with '[' to cope with multi-line descriptions
    cur = None
    entries = []
    files = []
    cur_file = None
    for line in body.splitlines():
        mfile = re.match(r'^(\S+) function (.*)$', line)
        if mfile and not line.startswith('['):
            cur_file = mfile.group(1)
        if line.startswith('['):
            if cur is not None:
                entries.append(cur)
            cur = line
            files.append(cur_file)
        elif cur is not None:
            if line.startswith('** ') or line.startswith('VERIFICATION') or line == '' or ' function ' in line and not line.startswith(' '):
                entries.append(cur)
                cur = None
            else:
                cur += '\n' + line
    if cur is not None:
        entries.append(cur)
    for idx, e in enumerate(entries):
        m = RES_RE.match(e)
        if not m:
            continue
        name, line, desc, status = m.groups()
        desc = re.sub(r'^\[KANI_CHECK_ID_[^\]]*\] ', '', desc)
        parts = name.rsplit('.', 2)
        cls = parts[1] if len(parts) == 3 else (parts[0] if len(parts) == 2 and parts[1].isdigit() else (parts[-1] if parts[-1] == 'recursion' else ''))
        out['props'].append({'name': name, 'class': cls, 'line': int(line) if line else None,
                             'file': files[idx] if idx < len(files) else None,
                             'desc': desc.strip(), 'status': status})
    st = out['stats']
    m = re.search(r'size of program expression: (\d+) steps', text)
    if m:
        st['program_steps'] = int(m.group(1))
    m = re.search(r'Generated (\d+) VCC\(s\), (\d+) remaining after simplification', text)
    if m:
        st['vccs'] = int(m.group(1))
        st['vccs_remaining'] = int(m.group(2))
    vc = re.findall(r'^(\d+) variables, (\d+) clauses', text, re.M)
    if vc:
        st['sat_variables'] = int(vc[-1][0])
        st['sat_clauses'] = int(vc[-1][1])
    st['solver_calls'] = len(re.findall(r'^SAT checker: instance is', text, re.M))
    m = re.search(r'Runtime Symex: ([\d.e+-]+)s', text)
    if m:
        st['symex_s'] = round(float(m.group(1)), 3)
    st['solver_s'] = round(sum(float(x) for x in re.findall(r'Runtime decision procedure: ([\d.e+-]+)s', text)), 3)
    # cross-check: every result line CBMC printed must have been parsed
    out['raw_failures'] = len(re.findall(r': FAILURE$', body, re.M))
    out['parsed_failures'] = len([p for p in out['props'] if p['status'] == 'FAILURE'])
    m = re.search(r'^\*\* (\d+) of (\d+) failed', text, re.M)
    out['cbmc_failed'] = int(m.group(1)) if m else None
    out['cbmc_total'] = int(m.group(2)) if m else None
    if 'VERIFICATION SUCCESSFUL' in text:
        out['verdict'] = 'SUCCESSFUL'
    elif 'VERIFICATION FAILED' in text:
        out['verdict'] = 'FAILED'
    else:
        out['verdict'] = None
    return out


def classify(parsed):
    """Kani's reading of CBMC's per-property results.
    returns (status, failures, covers) status in ok|failed|unwind|unsupported|vacuous|error"""
    if parsed['verdict'] is None:
        return 'error', [], []
    if parsed.get('cbmc_failed') is not None and (parsed['cbmc_failed'] != parsed['parsed_failures'] or parsed['cbmc_total'] != len(parsed['props'])):
        # the driver did not understand CBMC's output: never report success on that basis
        return 'error', [], []
    fails, covers, unwind, unsupported = [], [], [], []
    for p in parsed['props']:
        c = p['class']
        if c == 'reachability_check':
            continue
        if c == 'cover':
            covers.append({'desc': p['desc'], 'line': p['line'], 'satisfied': p['status'] == 'FAILURE'})
            continue
        if p['status'] == 'SUCCESS':
            continue
        if c in ('unwind', 'recursion') or 'unwinding assertion' in p['desc'] or 'recursion unwinding' in p['desc']:
            unwind.append(p)
        elif c == 'unsupported_construct' or 'is not currently supported by Kani' in p['desc']:
            unsupported.append(p)
        else:
            fails.append(p)
    if unsupported:
        return 'unsupported', unsupported, covers
    if fails:
        # with a failed unwinding assertion other failures may be spurious only in one direction:
        # CBMC's assertion failures are real traces within the unwound prefix; report them.
        return 'failed', fails, covers
    if unwind:
        return 'unwind', unwind, covers
    return 'ok', [], covers


DEFAULT_RECURSION = {
    # the bound on nested activations of the recursive Term functions; terms in the harnesses are
    # at most one level deep (a collection of scalars), so 2 activations suffice. Unwinding
    # assertions stay on: a deeper reachable recursion is reported, never silently cut.
    '<datalog::Term as std::clone::Clone>::clone': 2,
    'std::ptr::drop_glue::<datalog::Term>': 2,
    '<datalog::Term as std::cmp::Ord>::cmp': 2,
    '<datalog::Term as std::cmp::PartialOrd>::partial_cmp': 2,
    '<datalog::Term as std::cmp::PartialEq>::eq': 2,
    '<datalog::Term as std::hash::Hash>::hash': 2,
}


def recursion_unwindset(h, recursion):
    if not recursion or not h.get('name_map'):
        return []
    try:
        nm = json.load(open(h['name_map']))
    except Exception:
        return []
    out = []
    for mangled, pretty in nm.items():
        if pretty in recursion and not mangled.startswith('tag-'):
            out.append('%s:%d' % (mangled, recursion[pretty]))
    return out


def verify_harness(h, rundir, cap_s, mem_gb, unwindset=None, extra=None, recursion=None):
    name = h['pretty_name'].split('::')[-1]
    out = os.path.join(rundir, name + '.out')
    log = os.path.join(rundir, name + '.log')
    open(log, 'w').close()
    t0 = time.time()
    res = {'harness': name, 'pretty_name': h['pretty_name'], 'unwind': h['attributes'].get('unwind_value'),
           'source_file': h.get('original_file'), 'crate': h.get('crate_name'),
           'stubs': [s['original'].replace(' ', '') for s in h['attributes'].get('stubs', [])]}
    steps = [
        ['goto-cc', h['symtab'], KANI_LIB_C, '-o', out],
        ['goto-cc', out, '--function', h['mangled_name'], '-o', out],
        ['goto-instrument', '--add-library', '--no-malloc-may-fail', out, out],
        ['goto-instrument', '--generate-function-body-options', 'assert-false-assume-false',
         '--generate-function-body', '.*', '--drop-unused-functions', out, out],
        ['goto-instrument', '--ensure-one-backedge-per-target', out, out],
    ]
    for s in steps:
        rc = _run(s, log + '.prep', 600)
        if rc != 0:
            res.update(status='error', detail='%s failed rc=%s' % (s[0], rc), wall_s=round(time.time() - t0, 1))
            return res
    try:
        os.remove(h['symtab'])
    except OSError:
        pass
    res['prep_s'] = round(time.time() - t0, 1)
    cmd = ['cbmc'] + CBMC_FLAGS
    uw = h['attributes'].get('unwind_value')
    if uw is not None:
        cmd += ['--unwind', str(uw)]
    rec = dict(DEFAULT_RECURSION)
    rec.update(recursion or {})
    uws = recursion_unwindset(h, {k: v for k, v in rec.items() if v})
    if unwindset:
        uws.append(unwindset)
    if uws:
        cmd += ['--unwindset', ','.join(uws)]
    res['unwindset'] = len(uws)
    res['unwindset_user'] = unwindset
    res['unwindset_all'] = ','.join(uws)
    if h.get('name_map'):
        try:
            os.remove(h['name_map'])
        except OSError:
            pass
    if extra:
        cmd += extra
    cmd += [out, '--verbosity', '8']
    t1 = time.time()
    rc = _run(cmd, log, cap_s, mem_gb)
    res['cbmc_s'] = round(time.time() - t1, 1)
    text = open(log, errors='replace').read()
    try:
        os.remove(out)
        os.remove(log + '.prep')
    except OSError:
        pass
    if rc == 'timeout':
        res.update(status='timeout', detail='cbmc exceeded %ds' % cap_s)
    else:
        parsed = parse_cbmc(text)
        res['stats'] = parsed['stats']
        res['n_checks'] = len(parsed['props'])
        status, fails, covers = classify(parsed)
        res['covers'] = covers
        if status == 'error':
            oom = 'Out of memory' in text or 'bad_alloc' in text or rc in (-6, -9, 134, 137)
            res.update(status='oom' if oom else 'error', detail='cbmc rc=%s, no verdict' % rc)
        else:
            res['status'] = status
            res['failures'] = [{'name': f['name'], 'file': f.get('file'), 'line': f['line'], 'desc': f['desc'][:300]} for f in fails[:20]]
    res['wall_s'] = round(time.time() - t0, 1)
    # keep the log only when something went wrong
    if res['status'] == 'ok':
        try:
            os.remove(log)
        except OSError:
            pass
    return res


def run_all(hs, rundir, cap_s, mem_gb, jobs, unwindsets=None, progress=None, extra=None, recursion=None):
    results = []
    with ThreadPoolExecutor(max_workers=jobs) as ex:
        futs = []
        for h in hs:
            name = h['pretty_name'].split('::')[-1]
            uws = (unwindsets or {}).get(name)
            futs.append(ex.submit(verify_harness, h, rundir, cap_s, mem_gb, uws, extra, recursion))
        for f in futs:
            r = f.result()
            results.append(r)
            if progress:
                progress(r)
    return results


def run_all_cfg(hs, rundir, settings, jobs, progress=None):
    """settings(name) -> {cap, mem, extra, recursion, unwindset}"""
    results = []
    with ThreadPoolExecutor(max_workers=jobs) as ex:
        futs = []
        for h in hs:
            s = settings(h['pretty_name'].split('::')[-1])
            futs.append(ex.submit(verify_harness, h, rundir, s['cap'], s['mem'], s.get('unwindset'),
                                  s.get('extra'), s.get('recursion')))
        for f in futs:
            r = f.result()
            results.append(r)
            if progress:
                progress(r)
    return results


def replay_failure(prop, r, rundir, path):
    """record the counterexample; native confirmation is done by replay.py when available"""
    rec = {'property': prop, 'harness': r['harness'], 'failures': r.get('failures'),
           'log': os.path.join(rundir, r['harness'] + '.log'), 'confirmed': None}
    try:
        import replay
        rec.update(replay.confirm(prop, r, rundir))
    except ImportError:
        rec['note'] = 'native replay unavailable'
    except Exception as e:  # a replay that cannot be run is reported, never hidden
        rec['note'] = 'native replay failed to run: %s' % e
    json.dump(rec, open(path, 'w'), indent=1)
    return rec


if __name__ == '__main__':
    # dev entry: runner.py <crate> <filter>... [--cap N]
    args = [a for a in sys.argv[1:] if a != '--keep']
    recursion = None
    if '--rec' in args:
        i = args.index('--rec')
        recursion = {k: int(args[i + 1]) for k in DEFAULT_RECURSION}
        del args[i:i + 2]
    extra = None
    if '--extra' in args:
        i = args.index('--extra')
        extra = args[i + 1].split()
        del args[i:i + 2]
    cap = 300
    if '--cap' in args:
        i = args.index('--cap')
        cap = int(args[i + 1])
        del args[i:i + 2]
    crate = args[0]
    rundir = os.path.join(WORK, 'run-%d' % os.getpid())
    os.makedirs(rundir, exist_ok=True)
    try:
        hs, cg_s, _ = codegen(crate, args[1:], rundir, os.path.join(rundir, 'codegen.log'))
        print('codegen %.1fs, %d harnesses' % (cg_s, len(hs)))

        def prog(r):
            st = r.get('stats', {})
            print('%-50s %-9s prep %5.1fs cbmc %6.1fs steps %s vars %s covers %s %s' % (
                r['harness'], r['status'], r.get('prep_s', 0), r.get('cbmc_s', 0), st.get('program_steps'),
                st.get('sat_variables'), ''.join('S' if c['satisfied'] else 'u' for c in r.get('covers', [])),
                '; '.join('%s@%s' % (f['desc'][:80], f['line']) for f in r.get('failures', [])[:3]) or r.get('detail', '')), flush=True)
        run_all(hs, rundir, cap, 12, 14, progress=prog, extra=(extra if extra and '--max-field-sensitivity-array-size' in extra else (extra or []) + EXTRA_DEFAULT), recursion=recursion)
    except Inconclusive as e:
        print('INCONCLUSIVE', e)
    finally:
        if '--keep' not in sys.argv:
            shutil.rmtree(rundir, ignore_errors=True)
