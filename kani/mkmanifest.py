#!/usr/bin/env python3
"""writes /verif/MANIFEST.json from kani/props.py (single source of truth)"""
import json, os, sys
HERE = os.path.dirname(os.path.abspath(__file__))
sys.path.insert(0, HERE)
import props as P
props = [json.loads(l) for l in open(os.path.join(HERE, '..', 'properties.jsonl'))]
checks, na = [], []
for p in props:
    pid = p['id']
    if pid in P.PROPS:
        c = P.PROPS[pid]
        checks.append({
            'property_id': pid,
            'quick_cmd': './check %s --tier quick' % pid,
            'thorough_cmd': './check %s --tier thorough' % pid,
            'evidence_file': 'evidence/%s.json' % pid,
            'replay_cmd_template': './check %s --replay {path}' % pid,
            'engine': 'kani-cbmc',
            'level_claimed': {
                'category': 'model_checking',
                'text': c.get('level_text', 'Bounded symbolic execution of the real functions (Kani -> CBMC -> SAT): for all values inside the stated bound the assertions hold, or a concrete counterexample is returned. ') + ' Bound: ' + c.get('bounds', ''),
                'design_ref': 'DESIGN.md section 4, ' + pid,
            },
            'level_note': 'Outside the claim: ' + c.get('out', '') + ' Trusted: Kani/CBMC/cadical; Vec-backed container models (kani/vstd_model.rs); stubs listed in the evidence file.',
            'technique': c.get('technique', 'Kani proof harnesses over kani::any() inputs compiled from /repo, decided by CBMC/cadical with unwinding assertions'),
        })
    else:
        na.append({'property_id': pid, 'reason': P.NOT_APPLICABLE.get(pid, 'not yet claimed: harnesses for this property are not finished (see DESIGN.md)')})
m = {
    'version': 1,
    'setup_cmd': 'python3 kani/setup.py',
    'hooks': {
        'guard': 'cfg(kani) - no hook is committed to /repo: harness modules, container models and stub routing are injected into a scratch copy of the working tree on every run',
        'enable': 'cargo kani (sets cfg(kani)) inside the transformed copy produced by kani/transform.py',
        'baseline_off_cmd': 'cd /repo && cargo test --workspace --no-fail-fast --offline',
        'source_commits': [],
        'add_only': True,
    },
    'engines': [{'name': 'kani-cbmc', 'path': 'kani/runner.py', 'serves_properties': [c['property_id'] for c in checks],
                 'kind_free_text': 'Kani 0.68 codegen of the transformed working tree, then goto-cc/goto-instrument/cbmc per harness in parallel (the same steps kani-driver runs), cadical SAT back end'}],
    'checks': checks,
    'not_applicable': na,
    'notes': 'exit 2 = inconclusive (time-out, OOM, unwinding bound too small, anchor missing); never reported as success. Known findings: known_findings.json.',
}
json.dump(m, open(os.path.join(HERE, '..', 'MANIFEST.json'), 'w'), indent=1)
print('checks', len(checks), 'not_applicable', len(na))
