#!/bin/bash
# round-2 seeds (written after the first round of checks existed) against the checks
export BV_MAX_REPLAYS=0
OUT=/verif/seeded/RESULTS.txt
run() { seed=$1; prop=$2; only=$3; if [ "$only" = "-" ]; then r=$(/verif/kani/seedtest.sh $seed $prop 2>&1 | grep SEEDTEST); else r=$(/verif/kani/seedtest.sh $seed $prop --only "$only" 2>&1 | grep SEEDTEST); fi; echo "$r only=$only" >> $OUT; }
run C01-r2m2 C01 'c01_walk_v0_v1ext'
run C02-r2m1 C02 'to_proto'
run C02-r2m2 C02 -
run C03-r2m1 C03 -
run C03-r2m2 C03 -
run C03-r2m2 C04 -
run C06-r2m1 C06 'c06_bin_eq_null'
run C06-r2m2 C06 'c06_bin_sub_int'
run C08-r2m1 C08 'c02_seal'
run C08-r2m2 C08 -
run C10-r2m1 C10 'iterations'
run C10-r2m2 C10 -
run C10-r2m2 C13 'envelope_representable'
run C16-r2m1 C16 'c16_term_(null|array)'
run C16-r2m2 C16 'c02_new_signature_version'
run C17-r2m1 C17 'p256'
run C17-r2m2 C17 -
echo DONE2 >> $OUT
