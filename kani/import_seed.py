#!/usr/bin/env python3
"""import a seeded change confirmed by /tmp/seed-out/seedverify.sh into /verif/seeded/<id>/"""
import sys, os, json, shutil, re
prop, m = sys.argv[1], sys.argv[2]
src = '/tmp/seed-out/%s/%s' % (prop, m)
log = open('/tmp/seed-out/verify/%s_%s.log' % (prop, m)).read()
res = [l for l in log.splitlines() if l.startswith('RESULT')][-1]
mm = re.search(r'demo_with_rc=(\d+) demo_without_rc=(\d+)', res)
if not mm or mm.group(1) == '0' or mm.group(2) != '0':
    print('not confirmed:', res); sys.exit(1)
dst = '/verif/seeded/%s-%s' % (prop, m)
os.makedirs(dst, exist_ok=True)
shutil.copy(src + '/patch.diff', dst + '/patch.diff')
shutil.copy(src + '/demo.rs', dst + '/demo.rs')
meta = json.load(open(src + '/meta.json'))
flaky = re.findall(r'^test (\S+) \.\.\. FAILED', log.split('== demo with mutation')[0], re.M)
meta['breaks_property'] = prop
meta['confirmed_by'] = {
    'worktree': 'scratch git worktree of /repo HEAD (with the fix: commits) at /tmp/sv, removed afterwards',
    'ran': ['git apply patch.diff', 'cargo test --workspace --no-fail-fast --offline  (existing suite with the change)',
            'cargo test --offline -p <crate> --test <demo>  (with the change: must fail)', 'git apply -R patch.diff',
            'cargo test --offline -p <crate> --test <demo>  (without the change: must pass)'],
    'demo_with_change_exit': int(mm.group(1)), 'demo_without_change_exit': int(mm.group(2)),
    'suite_tests_failing_with_change': flaky,
    'suite_note': 'failures listed above, if any, are the load-sensitive tests that use the 1 ms default time limit (RunLimit(Timeout)); they also fail intermittently on the unchanged tree under load',
}
json.dump(meta, open(dst + '/meta.json', 'w'), indent=1)
print('imported', dst)
