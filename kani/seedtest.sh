#!/bin/bash
# usage: seedtest.sh <seed-dir-name> <PROP> [--only regex]   : apply seeded change to /repo, run the check, undo
S=/verif/seeded/$1; P=$2; shift 2
cd /repo && git apply --check $S/patch.diff || { echo "SEEDTEST $1 $P patch-does-not-apply"; exit 3; }
git -C /repo apply $S/patch.diff
cd /verif && ./check $P "$@" > /tmp/seedtest_$$.log 2>&1; rc=$?
git -C /repo checkout -- .
grep -E "VIOLATION|KNOWN|INCONCLUSIVE|tier=" /tmp/seedtest_$$.log | cut -c1-220
echo "SEEDTEST $(basename $S) $P rc=$rc"
rm -f /tmp/seedtest_$$.log
