#!/bin/bash
# usage: seedverify4.sh <ID in /tmp/wt-r4-ID> <PROP> <seed-name>
# collects the agent's change, confirms it in a scratch worktree (/tmp/sv4), imports it into /verif/seeded/<seed-name>/
ID=$1; PROP=$2; NAME=$3
W=/tmp/wt-r4-$ID
OUT=/verif/seeded/$NAME
mkdir -p $OUT
git -C $W diff -- . ':(exclude)biscuit-auth/tests/seed_demo.rs' > $OUT/patch.diff
cp $W/biscuit-auth/tests/seed_demo.rs $OUT/demo.rs
cp $W/SEED.md $OUT/SEED.md
[ -s $OUT/patch.diff ] || { echo "EMPTY PATCH $ID"; exit 1; }
SV=/tmp/sv4-$ID
git -C /repo worktree add -q --detach $SV HEAD || exit 1
cd $SV
export CARGO_NET_OFFLINE=true CARGO_TARGET_DIR=/tmp/sv4-target
git apply $OUT/patch.diff || { echo "PATCH DOES NOT APPLY"; exit 1; }
cargo test --workspace --no-fail-fast --offline > /tmp/sv4-$ID.suite.log 2>&1; suite_rc=$?
failing=$(grep -E '^test .* \.\.\. FAILED' /tmp/sv4-$ID.suite.log | sort -u | tr '\n' ';')
cp $OUT/demo.rs biscuit-auth/tests/seed_demo.rs
cargo test --offline -p biscuit-auth --test seed_demo > /tmp/sv4-$ID.with.log 2>&1; with_rc=$?
git apply -R $OUT/patch.diff
cargo test --offline -p biscuit-auth --test seed_demo > /tmp/sv4-$ID.without.log 2>&1; without_rc=$?
cd /
git -C /repo worktree remove --force $SV
echo "RESULT $NAME suite_rc=$suite_rc failing=[$failing] demo_with_rc=$with_rc demo_without_rc=$without_rc"
python3 - <<PY
import json
json.dump({
 'property': '$PROP', 'breaks_property': '$PROP', 'round': 4,
 'summary_file': 'SEED.md (written by the sub-agent: what was changed, what it needs to manifest)',
 'demo_cmd': 'cp demo.rs biscuit-auth/tests/seed_demo.rs && CARGO_NET_OFFLINE=true cargo test --offline -p biscuit-auth --test seed_demo',
 'confirmed_by': {
   'worktree': 'scratch git worktree of /repo HEAD at $SV (shared CARGO_TARGET_DIR /tmp/sv4-target), removed afterwards',
   'ran': ['git apply patch.diff', 'cargo test --workspace --no-fail-fast --offline (existing suite with the change)',
           'cargo test --offline -p biscuit-auth --test seed_demo (with the change: must fail)', 'git apply -R patch.diff',
           'cargo test --offline -p biscuit-auth --test seed_demo (without the change: must pass)'],
   'suite_exit_with_change': $suite_rc, 'suite_tests_failing_with_change': '$failing',
   'demo_with_change_exit': $with_rc, 'demo_without_change_exit': $without_rc,
   'suite_note': 'failures listed above, if any, are the load-sensitive tests that use the 1 ms default time limit (RunLimit(Timeout)); they also fail intermittently on the unchanged tree under load',
 }}, open('$OUT/meta.json','w'), indent=1)
PY
