#!/bin/bash
# usage: seedtest_scratch.sh <seed-dir-name> <PROP> [--only regex]
# like seedtest.sh, but on a scratch worktree of /repo (BV_REPO=/tmp/seedrepo, BV_WORK=/var/tmp/biscuit-verif-seed),
# so that it can run while the registered checks run against /repo itself; evidence goes to /tmp/ev-seed
S=/verif/seeded/$1; P=$2; shift 2
R=/tmp/seedrepo
[ -d $R ] || git -C /repo worktree add -q --detach $R HEAD
git -C $R checkout -q -- . && git -C $R apply --check $S/patch.diff || { echo "SEEDTEST $(basename $S) $P patch-does-not-apply"; exit 3; }
git -C $R apply $S/patch.diff
cd /verif && BV_REPO=$R BV_WORK=/var/tmp/biscuit-verif-seed BV_EVIDENCE_DIR=/tmp/ev-seed ./check $P "$@" > /tmp/seedtest_$$.log 2>&1; rc=$?
git -C $R checkout -q -- .
grep -E "VIOLATION|KNOWN|INCONCLUSIVE|native replay|tier=" /tmp/seedtest_$$.log | cut -c1-260
echo "SEEDTEST $(basename $S) $P rc=$rc"
rm -f /tmp/seedtest_$$.log
